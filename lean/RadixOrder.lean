/-
Schema lemma behind C17 (version order), Lean 4 core, no Mathlib.

convert_version_to_int packs the components c_0 .. c_{n-1} (each 0..999) as
the Horner value ((c_0 * 1000 + c_1) * 1000 + ...) - that the real loop
computes this value is what pyvc discharges on the code.  This file proves,
for EVERY length, that the integer order of the packed values is the
component-wise (lexicographic) order of two tuples of the same length, and
that packing is injective.  (pyvc/z3 discharges the induction step as a pure
LIA obligation as well: order_lemma_induction_step.)
-/

namespace RadixOrder

/-- Horner value with an accumulator -/
def horner : Nat → List Nat → Nat
  | acc, [] => acc
  | acc, c :: cs => horner (acc * 1000 + c) cs

/-- lexicographic "less than" on lists of equal length -/
def lexlt : List Nat → List Nat → Prop
  | [], [] => False
  | x :: xs, y :: ys => x < y ∨ (x = y ∧ lexlt xs ys)
  | _, _ => False

/-- all components are below the radix -/
def small : List Nat → Prop
  | [] => True
  | x :: xs => x < 1000 ∧ small xs

theorem horner_lt_iff :
    ∀ (as bs : List Nat) (A B : Nat), as.length = bs.length →
      small as → small bs →
      (horner A as < horner B bs ↔ A < B ∨ (A = B ∧ lexlt as bs)) := by
  intro as
  induction as with
  | nil =>
    intro bs A B hlen _ _
    cases bs with
    | nil => simp [horner, lexlt]
    | cons y ys => simp at hlen
  | cons x xs ih =>
    intro bs A B hlen hsa hsb
    cases bs with
    | nil => simp at hlen
    | cons y ys =>
      have hlen' : xs.length = ys.length := by simpa using hlen
      obtain ⟨hx, hxs⟩ := hsa
      obtain ⟨hy, hys⟩ := hsb
      have step := ih ys (A * 1000 + x) (B * 1000 + y) hlen' hxs hys
      simp only [horner, lexlt]
      rw [step]
      constructor
      · intro h
        rcases h with h | ⟨h1, h2⟩
        · by_cases hab : A < B
          · exact Or.inl hab
          · have hAB : A = B := by omega
            have hxy : x < y := by omega
            exact Or.inr ⟨hAB, Or.inl hxy⟩
        · have hAB : A = B := by omega
          have hxy : x = y := by omega
          exact Or.inr ⟨hAB, Or.inr ⟨hxy, h2⟩⟩
      · intro h
        rcases h with h | ⟨h1, h2⟩
        · exact Or.inl (by omega)
        · rcases h2 with h2 | ⟨h3, h4⟩
          · exact Or.inl (by omega)
          · exact Or.inr ⟨by omega, h4⟩

/-- C17: integer order of packed versions == component order, any length -/
theorem packed_order_is_component_order (as bs : List Nat)
    (hlen : as.length = bs.length) (ha : small as) (hb : small bs) :
    horner 0 as < horner 0 bs ↔ lexlt as bs := by
  have h := horner_lt_iff as bs 0 0 hlen ha hb
  simpa using h

theorem lexlt_irrefl : ∀ (as : List Nat), ¬ lexlt as as := by
  intro as
  induction as with
  | nil => simp [lexlt]
  | cons x xs ih =>
    simp only [lexlt]
    intro h
    rcases h with h | ⟨_, h⟩
    · omega
    · exact ih h

theorem lexlt_total : ∀ (as bs : List Nat), as.length = bs.length →
    lexlt as bs ∨ as = bs ∨ lexlt bs as := by
  intro as
  induction as with
  | nil =>
    intro bs h
    cases bs with
    | nil => exact Or.inr (Or.inl rfl)
    | cons y ys => simp at h
  | cons x xs ih =>
    intro bs h
    cases bs with
    | nil => simp at h
    | cons y ys =>
      have h' : xs.length = ys.length := by simpa using h
      simp only [lexlt]
      rcases Nat.lt_trichotomy x y with hxy | hxy | hxy
      · exact Or.inl (Or.inl hxy)
      · rcases ih ys h' with h1 | h1 | h1
        · exact Or.inl (Or.inr ⟨hxy, h1⟩)
        · exact Or.inr (Or.inl (by rw [hxy, h1]))
        · exact Or.inr (Or.inr (Or.inr ⟨hxy.symm, h1⟩))
      · exact Or.inr (Or.inr (Or.inl hxy))

/-- packing is injective on tuples of the same length -/
theorem packed_injective (as bs : List Nat)
    (hlen : as.length = bs.length) (ha : small as) (hb : small bs)
    (h : horner 0 as = horner 0 bs) : as = bs := by
  rcases lexlt_total as bs hlen with h1 | h1 | h1
  · have := (packed_order_is_component_order as bs hlen ha hb).mpr h1
    omega
  · exact h1
  · have := (packed_order_is_component_order bs as hlen.symm hb ha).mpr h1
    omega

end RadixOrder

/-
Schema lemma behind C01 (chunk independence), checked by Lean 4 core, no
Mathlib.  The per-class obligations discharged by pyvc on the real code are the
hypotheses:

  hinit  : R init []                                   ("init")
  hstep  : R s pre → the real eat_chunk on the next piece c of the stream
           either yields s' with R s' (pre ++ c), or raises exactly when the
           prefix pre ++ c is rejected                  ("step", "step-error")
  hmono  : rejection is monotone in the prefix          ("error/…-persists")
  hclean : a state in R has a prefix that is not rejected
  huniq  : two states in R for the same prefix have the same observable
           verdict                                      ("unique/…")

Conclusion: any two chunkings of the same stream (empty chunks allowed) end
both rejected, or both accepted with the same verdict.
-/

namespace ChunkInduction

variable {α State Obs : Type}

/-- feed the chunks one after the other; `none` = ImageFormatError raised -/
def run (eat : State → List α → Option State) : Option State → List (List α) → Option State
  | none, _ => none
  | some s, [] => some s
  | some s, c :: cs => run eat (eat s c) cs

theorem run_none (eat : State → List α → Option State) (cs : List (List α)) :
    run eat none cs = none := by
  cases cs <;> rfl

/-- the invariant carried along a chunking -/
theorem run_spec
    (eat : State → List α → Option State)
    (R : State → List α → Prop) (Rej : List α → Prop)
    (hstep : ∀ s pre c, R s pre →
      match eat s c with
      | some s' => R s' (pre ++ c)
      | none => Rej (pre ++ c))
    (hmono : ∀ pre c, Rej pre → Rej (pre ++ c)) :
    ∀ (cs : List (List α)) (s : State) (pre : List α), R s pre →
      match run eat (some s) cs with
      | some s' => R s' (pre ++ cs.flatten)
      | none => Rej (pre ++ cs.flatten) := by
  intro cs
  induction cs with
  | nil =>
    intro s pre h
    simp [run]
    exact h
  | cons c cs ih =>
    intro s pre h
    have hs := hstep s pre c h
    simp only [run, List.flatten_cons]
    cases hE : eat s c with
    | none =>
      rw [hE] at hs
      simp only [run_none]
      have := hmono (pre ++ c) cs.flatten hs
      simpa [List.append_assoc] using this
    | some s' =>
      rw [hE] at hs
      have := ih s' (pre ++ c) hs
      simpa [List.append_assoc] using this

/-- C01 for one inspector class: the verdict is a function of the bytes -/
theorem chunk_independent
    (init : State) (eat : State → List α → Option State) (obs : State → Obs)
    (R : State → List α → Prop) (Rej : List α → Prop)
    (hinit : R init [])
    (hstep : ∀ s pre c, R s pre →
      match eat s c with
      | some s' => R s' (pre ++ c)
      | none => Rej (pre ++ c))
    (hmono : ∀ pre c, Rej pre → Rej (pre ++ c))
    (hclean : ∀ s pre, R s pre → ¬ Rej pre)
    (huniq : ∀ s s' pre, R s pre → R s' pre → obs s = obs s')
    (cs cs' : List (List α)) (hsame : cs.flatten = cs'.flatten) :
    (run eat (some init) cs).map obs = (run eat (some init) cs').map obs := by
  have h1 := run_spec eat R Rej hstep hmono cs init [] hinit
  have h2 := run_spec eat R Rej hstep hmono cs' init [] hinit
  rw [← hsame] at h2
  cases r1 : run eat (some init) cs with
  | none =>
    rw [r1] at h1
    cases r2 : run eat (some init) cs' with
    | none => rfl
    | some s2 =>
      rw [r2] at h2
      exact absurd h1 (hclean s2 _ h2)
  | some s1 =>
    rw [r1] at h1
    cases r2 : run eat (some init) cs' with
    | none =>
      rw [r2] at h2
      exact absurd h2 (hclean s1 _ h1)
    | some s2 =>
      rw [r2] at h2
      simp [huniq s1 s2 _ h1 h2]

end ChunkInduction

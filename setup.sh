#!/bin/sh
# Build the single interpreter used by every check: a 3.12 overlay venv with
# z3-solver, cvc5, crosshair-tool, deal, icontract, jsonschema from the offline
# wheelhouse, plus a .pth onto /venv's site-packages (repo third-party deps;
# oslo_utils itself resolves to /repo, installed editable in /venv).
set -e
cd "$(dirname "$0")"
if [ ! -x .venv/bin/python ] || ! .venv/bin/python -c "import z3, jsonschema, oslo_utils" 2>/dev/null; then
  rm -rf .venv
  /venv/bin/python -m venv .venv
  PIP_NO_INDEX=1 .venv/bin/python -m pip install -q --no-index --find-links /opt/veriftools/wheels \
      z3-solver cvc5 jsonschema crosshair-tool deal icontract hypothesis
  SP=$(.venv/bin/python -c "import sysconfig; print(sysconfig.get_paths()['purelib'])")
  echo "import site; site.addsitedir('/venv/lib/python3.12/site-packages')" > "$SP/zz_repo_deps.pth"
fi
.venv/bin/python -c "import z3, jsonschema, oslo_utils, netaddr; print('venv ok', z3.get_version_string(), oslo_utils.__file__)"

#!/usr/bin/env python3
"""Behaviour-preserving edits ("harmless refactors") against the checks: a
check that exits 1 on one of them is a false alarm and has to be corrected.

usage: tools_harmless.py file <prop> <src_dir> <name>   verify and file a candidate under /verif/harmless/<name>/
       tools_harmless.py run [name ...]                 run ./check <prop> against each (default: all)

A candidate (patch.diff, check.py, notes.md) is accepted when the patch
applies to a clean checkout, the 472 baseline tests still pass and check.py
exits 0 on both trees.  All work happens in scratch worktrees of /repo under
/tmp, removed afterwards; /repo itself is never touched."""
import json
import os
import shutil
import subprocess
import sys
from concurrent.futures import ThreadPoolExecutor

BASE = json.load(open('/root/.vp/BASELINE.json'))['stable_pass']
ROOT = '/verif/harmless'


def sh(cmd, cwd=None, env=None, timeout=3600):
    return subprocess.run(cmd, shell=True, cwd=cwd, capture_output=True,
                          text=True, timeout=timeout, env=env)


def file_candidate(prop, src, name):
    wt = '/tmp/harmwt_%s' % name
    sh('git -C /repo worktree remove --force %s' % wt)
    r = sh('git -C /repo worktree add -q --detach %s HEAD' % wt)
    assert r.returncode == 0, r.stderr
    out = {'property': prop, 'name': name}
    try:
        chk = os.path.join(src, 'check.py')
        out['check_clean_exit'] = sh('/venv/bin/python %s' % chk,
                                     cwd=wt).returncode
        out['patch_applies'] = sh('git apply %s' % os.path.join(
            src, 'patch.diff'), cwd=wt).returncode == 0
        sh('/venv/bin/python -m pytest -q -p no:cacheprovider --timeout=900 '
           '--continue-on-collection-errors --junitxml=/tmp/harm_%s.xml'
           % name, cwd=wt)
        import xml.etree.ElementTree as ET
        passed = set()
        for tc in ET.parse('/tmp/harm_%s.xml' % name).getroot().iter(
                'testcase'):
            if not list(tc):
                passed.add('%s::%s' % (tc.get('classname'), tc.get('name')))
        os.unlink('/tmp/harm_%s.xml' % name)
        out['baseline_missing'] = [t for t in BASE if t not in passed]
        out['check_patched_exit'] = sh('/venv/bin/python %s' % chk,
                                       cwd=wt).returncode
        ok = (out['check_clean_exit'] == 0 and out['patch_applies']
              and not out['baseline_missing']
              and out['check_patched_exit'] == 0)
        out['accepted'] = ok
    finally:
        sh('git -C /repo worktree remove --force %s' % wt)
    print(json.dumps(out)[:400])
    if out.get('accepted'):
        dst = os.path.join(ROOT, name)
        os.makedirs(dst, exist_ok=True)
        for f in ('patch.diff', 'check.py', 'notes.md'):
            if os.path.exists(os.path.join(src, f)):
                shutil.copy(os.path.join(src, f), dst)
        json.dump({'property': prop, 'accepted_by': 'tools_harmless.py: '
                   'patch applies, 472 baseline tests pass, check.py exits 0 '
                   'on both trees'},
                  open(os.path.join(dst, 'meta.json'), 'w'), indent=1)
    return 0 if out.get('accepted') else 1


def run(name):
    d = os.path.join(ROOT, name)
    meta = json.load(open(os.path.join(d, 'meta.json')))
    prop = meta['property']
    wt = '/tmp/harmrun_%s' % name
    sh('git -C /repo worktree remove --force %s' % wt)
    r = sh('git -C /repo worktree add -q --detach %s HEAD' % wt)
    assert r.returncode == 0, r.stderr
    try:
        r = sh('git apply %s' % os.path.join(d, 'patch.diff'), cwd=wt)
        assert r.returncode == 0, r.stderr
        env = dict(os.environ, PYVC_REPO=wt,
                   PYVC_OUT='/tmp/harmrun_out_%s' % name)
        res = {}
        for p in [prop] + meta.get('also_check', []):
            r = sh('./check %s' % p, cwd='/verif', env=env)
            lines = [l for l in r.stdout.splitlines()
                     if l.startswith(('VIOLATION', 'UNDECIDED',
                                      'CHECKER-ERROR', '  obligation'))]
            res[p] = {'exit': r.returncode, 'lines': lines[:12]}
        meta['check_result'] = res
        meta['false_alarm'] = any(v['exit'] == 1 for v in res.values())
        json.dump(meta, open(os.path.join(d, 'meta.json'), 'w'), indent=1)
        return name, res
    finally:
        sh('git -C /repo worktree remove --force %s' % wt)
        sh('rm -rf /tmp/harmrun_out_%s' % name)


def main():
    if sys.argv[1] == 'file':
        return file_candidate(*sys.argv[2:5])
    names = sys.argv[2:] or sorted(os.listdir(ROOT))
    with ThreadPoolExecutor(max_workers=3) as ex:
        for name, res in ex.map(run, names):
            for p, v in res.items():
                print('%-10s %s exit=%d' % (name, p, v['exit']))
                for l in v['lines'][:6]:
                    print('      ', l[:200])
    return 0


if __name__ == '__main__':
    sys.exit(main())

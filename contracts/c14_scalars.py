"""C14 - scalar parsers and validators classify every input exactly.

str.strip / str.lower / str() / int() are uninterpreted operators applied
identically by the code and by the contract (DESIGN 3.3): the proofs show the
functions compute the specified combination of those operators for EVERY
interpretation, hence for Python's; only the facts int(DEC(n)) == n and
"DEC(n) is canonical" are assumed about them (A-STDLIB-INT, validated by the
bounded family).  The word tables are compared with the documented lists.
"""
from pyvc.api import (proof, bounded, load, model, fresh_str, fresh_int,
                      fresh_bool, pick, assume, check, implies, conj, disj,
                      neg, parses_as_int, int_of, strlen, blank, rng)

SU = 'oslo_utils/strutils.py'
UU = 'oslo_utils/uuidutils.py'

TRUE_WORDS = ('1', 't', 'true', 'on', 'y', 'yes')
FALSE_WORDS = ('0', 'f', 'false', 'off', 'n', 'no')


@proof('C14', targets=[(SU, 'TRUE_STRINGS'), (SU, 'FALSE_STRINGS')])
def word_tables_are_the_documented_ones():
    S = load(SU)
    check('tables/true-words', sorted(S.TRUE_STRINGS) == sorted(TRUE_WORDS))
    check('tables/false-words', sorted(S.FALSE_STRINGS)
          == sorted(FALSE_WORDS))
    check('tables/disjoint',
          all([w not in S.FALSE_STRINGS for w in S.TRUE_STRINGS]))
    check('tables/lowercase-unpadded',
          all([w == w.strip().lower()
               for w in S.TRUE_STRINGS + S.FALSE_STRINGS]))


def any_subject(tag):
    kind = pick(tag + '_kind', ['str', 'bool', 'int', 'None', 'float',
                                'bytes'])
    if kind == 'str':
        return kind, fresh_str(tag)
    if kind == 'bool':
        return kind, pick(tag + '_bool', [True, False])
    if kind == 'int':
        return kind, fresh_int(tag)
    if kind == 'None':
        return kind, None
    if kind == 'float':
        return kind, pick(tag + '_float', [0.0, 1.0, 2.5])
    return kind, pick(tag + '_bytes', [b'', b'yes', b'1'])


@proof('C14', targets=[(SU, 'bool_from_string'),
                       (SU, 'int_from_bool_as_string')])
def bool_from_string_contract():
    S = load(SU)
    kind, subject = any_subject('subject')
    strict = pick('strict', [False, True])
    default = pick('default', [False, True, None])
    raised = None
    try:
        r = S.bool_from_string(subject, strict=strict, default=default)
    except Exception as e:
        raised = e
    if kind == 'bool':
        check('bool/booleans-pass-through', raised is None
              and r is subject)
        return
    word = str(subject).strip().lower()
    is_true = disj([word == w for w in TRUE_WORDS])
    is_false = disj([word == w for w in FALSE_WORDS])
    if raised is not None:
        check('bool/raises-only-valueerror-when-strict-and-unrecognised',
              isinstance(raised, ValueError) and strict
              and conj(neg(is_true), neg(is_false)))
        return
    check('bool/true-exactly-for-true-words', implies(is_true, r == True))  # noqa
    check('bool/false-exactly-for-false-words',
          implies(is_false, r == False))  # noqa
    check('bool/default-otherwise',
          implies(conj(neg(is_true), neg(is_false)),
                  (not strict) and (r is default or r == default)))
    check('bool/strict-unrecognised-must-raise',
          implies(conj(neg(is_true), neg(is_false)), not strict))


@proof('C14', targets=[(SU, 'int_from_bool_as_string')])
def int_from_bool_as_string_contract():
    S = load(SU)
    s = fresh_str('subject')
    r = S.int_from_bool_as_string(s)
    word = s.strip().lower()
    is_true = disj([word == w for w in TRUE_WORDS])
    check('int-from-bool/one-iff-true-word', (r == 1) == is_true)
    check('int-from-bool/zero-otherwise', disj(r == 1, r == 0))


@proof('C14', targets=[(SU, 'is_valid_boolstr'), (SU, 'bool_from_string')])
def is_valid_boolstr_agrees_on_unpadded_input():
    S = load(SU)
    s = fresh_str('value')
    v = S.is_valid_boolstr(s)
    low = s.lower()
    documented = disj([low == w for w in TRUE_WORDS + FALSE_WORDS])
    check('boolstr/iff-documented-word', v == documented)
    assume(s.strip() == s)
    raised = False
    try:
        S.bool_from_string(s, strict=True)
    except ValueError:
        raised = True
    check('boolstr/agrees-with-strict-bool_from_string', v == (not raised))


@proof('C14', targets=[(SU, 'is_valid_boolstr')])
def is_valid_boolstr_any_type():
    S = load(SU)
    kind, value = any_subject('value')
    v = S.is_valid_boolstr(value)
    low = str(value).lower()
    check('boolstr/any-type-iff-documented-word',
          v == disj([low == w for w in TRUE_WORDS + FALSE_WORDS]))


@proof('C14', targets=[(SU, 'is_int_like')],
       assumes=['A-STDLIB-INT: int(str(n)) == n; str(n) is the canonical '
                'decimal rendering'])
def is_int_like_contract():
    S = load(SU)
    kind, val = any_subject('val')
    r = S.is_int_like(val)          # any exception escaping is a violation
    if kind == 'str':
        canonical = parses_as_int(val) and str(int_of(val)) == val
        check('intlike/iff-canonical-rendering', r == canonical)
    elif kind == 'int':
        check('intlike/ints-are-int-like', r == True)  # noqa: E712
    elif kind == 'None':
        check('intlike/none-is-not', r == False)  # noqa: E712
    elif kind == 'bytes':
        check('intlike/bytes-are-not', r == False)  # noqa: E712
    check('intlike/returns-bool', r == True or r == False)  # noqa: E712


@proof('C14', targets=[(SU, 'validate_integer')],
       assumes=['A-STDLIB-INT'])
def validate_integer_contract():
    S = load(SU)
    kind, value = any_subject('value')
    lo = fresh_int('min_value') if pick('has_min', [False, True]) else None
    hi = fresh_int('max_value') if pick('has_max', [False, True]) else None
    raised = None
    try:
        r = S.validate_integer(value, 'thing', lo, hi)
    except Exception as e:
        raised = e
    text = str(value)
    is_int = parses_as_int(text)
    if raised is not None:
        check('validate/raises-only-valueerror',
              isinstance(raised, ValueError))
        if is_int:
            n = int_of(text)
            check('validate/raises-only-when-out-of-range',
                  disj(lo is not None and n < lo, hi is not None and n > hi))
        return
    check('validate/returns-only-for-integer-literals', is_int)
    if is_int:
        n = int_of(text)
        check('validate/returns-int-of-value', r == n)
        check('validate/within-bounds',
              conj(lo is None or n >= lo, hi is None or n <= hi))


@proof('C14', targets=[(SU, 'check_string_length')])
def check_string_length_contract():
    S = load(SU)
    kind, value = any_subject('value')
    lo = fresh_int('min_length', 0)
    hi = fresh_int('max_length', 0) if pick('has_max', [False, True]) \
        else None
    name = pick('name', [None, 'field'])
    raised = None
    try:
        r = S.check_string_length(value, name, lo, hi)
    except Exception as e:
        raised = e
    if kind != 'str':
        check('length/non-str-raises-typeerror',
              isinstance(raised, TypeError))
        return
    n = strlen(value)
    bad = disj(n < lo, (hi is not None) and n > hi)
    if raised is not None:
        check('length/raises-only-valueerror-when-out-of-bounds',
              isinstance(raised, ValueError) and bad)
    else:
        check('length/accepts-only-within-bounds', neg(bad))
        check('length/returns-none', r is None)


class _NS:
    pass


@proof('C14', targets=[(UU, 'is_uuid_like'), (UU, '_format_uuid_string')],
       native=False,
       assumes=['A-UUID: uuid.UUID(x) raises only TypeError, ValueError or '
                'AttributeError'])
def is_uuid_like_never_raises():
    U = load(UU)
    kind, val = any_subject('val')

    class FakeUUID:
        def __init__(self, v):
            self.v = v

        def __str__(self):
            return fresh_str('canonical_uuid_text')

    def fake_ctor(v=None):
        outcome = pick('uuid_ctor_outcome', ['ok', 'ValueError', 'TypeError',
                                             'AttributeError'])
        if not isinstance(v, str):
            assume(outcome != 'ok')
        if outcome == 'ValueError':
            raise ValueError('badly formed hexadecimal UUID string')
        if outcome == 'TypeError':
            raise TypeError('one of the hex... arguments must be given')
        if outcome == 'AttributeError':
            raise AttributeError('no attribute replace')
        return FakeUUID(v)
    ns = _NS()
    ns.UUID = fake_ctor
    model(U, 'uuid', ns)
    r = U.is_uuid_like(val)
    check('uuid/answers-with-a-bool', r == True or r == False)  # noqa: E712
    if kind != 'str':
        check('uuid/non-strings-are-rejected', r == False)  # noqa: E712


# ---------------------------------------------------------------------------
# bounded families on the real functions


@bounded('C14', targets=[(UU, 'is_uuid_like'), (UU, 'generate_uuid')],
         bound='hex strings of length 30..34 x 7 decorations x 3 cases x 40 '
               'seeded digit strings; 300 generate_uuid draws; non-string '
               'arguments')
def uuid_spellings_family():
    U = load(UU)
    r = rng()
    hexd = '0123456789abcdef'

    def decorate(h, how):
        dashed = '-'.join([h[:8], h[8:12], h[12:16], h[16:20], h[20:]])
        return {'plain': h, 'dashed': dashed, 'braced': '{' + dashed + '}',
                'braced-plain': '{' + h + '}', 'urn': 'urn:uuid:' + dashed,
                'urn-plain': 'urn:uuid:' + h,
                'urn-only': 'urn:' + dashed,
                # decorations combined, as uuid.UUID reads them
                'braced-urn': '{urn:uuid:' + dashed + '}',
                'urn-braced': 'urn:uuid:{' + dashed + '}',
                'uuid-only': 'uuid:' + h}[how]
    for trial in range(40):
        for n in (30, 31, 32, 33, 34):
            h = ''.join(r.choice(hexd) for _ in range(n))
            for how in ('plain', 'dashed', 'braced', 'braced-plain', 'urn',
                        'urn-plain', 'urn-only', 'braced-urn', 'urn-braced',
                        'uuid-only'):
                for case in ('lower', 'upper', 'mixed'):
                    t = decorate(h, how)
                    if case == 'upper':
                        t = t.upper().replace('URN:', 'urn:').replace(
                            'UUID:', 'uuid:')
                    elif case == 'mixed':
                        t = ''.join(c.upper() if i % 2 else c
                                    for i, c in enumerate(t)).replace(
                            'uRn:', 'urn:').replace('UrN:', 'urn:').replace(
                            'UuId:', 'uuid:').replace('uUiD:', 'uuid:')
                        if t[:4].lower() == 'urn:':
                            t = 'urn:' + ('uuid:' + t[9:]
                                          if t[4:9].lower() == 'uuid:'
                                          else t[4:])
                        if t[:5].lower() == '{urn:':
                            t = '{urn:uuid:' + t[10:]
                        if t[:5].lower() == 'uuid:':
                            t = 'uuid:' + t[5:]
                    try:
                        got = U.is_uuid_like(t)
                        exc = None
                    except Exception as e:
                        got, exc = None, type(e).__name__
                    check('uuid-family/never-raises', exc is None, detail=t)
                    check('uuid-family/accepts-iff-32-hex-digits',
                          bool(got) == (n == 32), detail=(t, got))
    for i in range(300):
        for dashed in (True, False):
            g = U.generate_uuid(dashed)
            check('uuid-family/generated-uuids-are-uuid-like',
                  U.is_uuid_like(g) is True and isinstance(g, str)
                  and len(g) == (36 if dashed else 32), detail=g)
    for bad in [None, 5, 2.5, b'x' * 32, [], {}, True, ('a',), '',
                'g' * 32, ' ' + '0' * 31, '+' + '0' * 31, '0x' + '0' * 30,
                '0' * 15 + '_' + '0' * 16, '0' * 32 + '\n']:
        try:
            got = U.is_uuid_like(bad)
            exc = None
        except Exception as e:
            got, exc = None, type(e).__name__
        check('uuid-family/rejects-non-uuid-without-raising',
              exc is None and got is False, detail=(repr(bad), got, exc))


@bounded('C14', targets=[(SU, 'bool_from_string'), (SU, 'is_valid_boolstr'),
                         (SU, 'is_int_like'), (SU, 'validate_integer'),
                         (SU, 'check_string_length')],
         bound='documented words x 4 case variants x 6 paddings; near '
               'misses; integers around bounds in int/str form with signs, '
               'whitespace, underscores; lengths around min/max')
def scalar_parsers_family():
    S = load(SU)
    pads = ['', ' ', '\t', '\n', '  ', ' \t\n']
    for w, want in [(x, True) for x in TRUE_WORDS] + \
            [(x, False) for x in FALSE_WORDS]:
        for v in {w, w.upper(), w.capitalize(), w[0].upper() + w[1:]}:
            for a in pads:
                for b in pads:
                    t = a + v + b
                    check('family/bool-documented-words',
                          S.bool_from_string(t, strict=True) is want,
                          detail=repr(t))
                    check('family/boolstr-unpadded',
                          S.is_valid_boolstr(t) == (a == '' and b == ''),
                          detail=repr(t))
    for t in ['', 'ye', 'yess', 'tru', '2', '-1', 'none', 'o n', 'Truee',
              '01', '1.0', 't rue', ' yes', 'ｙｅｓ']:
        for strict in (False, True):
            for default in (False, True, None):
                recognised = t.strip().lower() in TRUE_WORDS + FALSE_WORDS
                try:
                    r = S.bool_from_string(t, strict=strict, default=default)
                    exc = None
                except ValueError:
                    r, exc = None, 'ValueError'
                if recognised:
                    continue
                check('family/bool-unrecognised',
                      (exc == 'ValueError') if strict else
                      (exc is None and r is default), detail=(t, strict))
    for v in [True, False]:
        check('family/bool-passthrough', S.bool_from_string(v) is v)
    for v, want in [(1, True), (0, False), (2, False), (1.0, False),
                    (None, False)]:
        check('family/bool-non-strings-are-stringified',
              S.bool_from_string(v) is want, detail=repr(v))
        if want is False and v not in (0,):
            try:
                S.bool_from_string(v, strict=True)
                exc = None
            except ValueError:
                exc = 'ValueError'
            check('family/bool-non-strings-strict', exc == 'ValueError',
                  detail=repr(v))
    for v, want in [(0, True), (-7, True), ('0', True), ('-7', True),
                    ('+7', False), (' 7', False), ('7 ', False),
                    ('07', False), ('7_0', False), ('7.0', False),
                    (7.0, False), (7.5, False), (None, False), ('', False),
                    ('٣', False), ('-0', False), (True, False),
                    (10 ** 30, True), (str(10 ** 30), True), (b'7', False)]:
        try:
            got = S.is_int_like(v)
            exc = None
        except Exception as e:
            got, exc = None, type(e).__name__
        check('family/is_int_like', exc is None and got is want,
              detail=(repr(v), got, exc))
    for lo in (None, -5, 0, 3):
        for hi in (None, -1, 0, 3, 10):
            for v in [-6, -5, -1, 0, 1, 3, 4, 10, 11, '3', ' 3', '3 ',
                      '+3', '-0', '0x3', '3.0', 3.0, 3.5, None, '', 'x',
                      '1_0', '٣', True]:
                try:
                    r = S.validate_integer(v, 'n', lo, hi)
                    exc = None
                except ValueError:
                    r, exc = None, 'ValueError'
                except Exception as e:
                    r, exc = None, type(e).__name__
                try:
                    n = int(str(v))
                except ValueError:
                    n = None
                ok = (n is not None and (lo is None or n >= lo)
                      and (hi is None or n <= hi))
                check('family/validate_integer',
                      (exc is None and r == n and type(r) is int) if ok
                      else exc == 'ValueError', detail=(repr(v), lo, hi, r,
                                                        exc))
    for n in range(0, 7):
        for lo in (0, 1, 3, 6):
            for hi in (None, 0, 1, 3, 6):
                try:
                    S.check_string_length('a' * n, 'x', lo, hi)
                    exc = None
                except Exception as e:
                    exc = type(e).__name__
                ok = n >= lo and (hi is None or n <= hi)
                check('family/check_string_length',
                      exc == (None if ok else 'ValueError'),
                      detail=(n, lo, hi, exc))
    for v in [None, 5, b'abc', ['a'], 2.5]:
        try:
            S.check_string_length(v, None, 0, 10)
            exc = None
        except Exception as e:
            exc = type(e).__name__
        check('family/check_string_length-type', exc == 'TypeError',
              detail=repr(v))


CANARIES = [
    dict(name='bool-strip-dropped', file=SU,
         proofs=['bool_from_string_contract'],
         old='    lowered = subject.strip().lower()',
         new='    lowered = subject.lower()', expect='bool/'),
    dict(name='validate-upper-bound-strict', file=SU,
         proofs=['validate_integer_contract'],
         old='    if max_value is not None and value > max_value:',
         new='    if max_value is not None and value >= max_value:',
         expect='validate/'),
    dict(name='is_int_like-swallows-less', file=SU,
         proofs=['is_int_like_contract'],
         old='    except (TypeError, ValueError):\n        return False\n\n\ndef check_string_length',
         new='    except ValueError:\n        return False\n\n\ndef check_string_length',
         expect=''),
    dict(name='true-word-added', file=SU,
         proofs=['word_tables_are_the_documented_ones'],
         old="TRUE_STRINGS = ('1', 't', 'true', 'on', 'y', 'yes')",
         new="TRUE_STRINGS = ('1', 't', 'true', 'on', 'y', 'yes', 'ok')",
         expect='tables/true'),
    dict(name='length-min-off-by-one', file=SU,
         proofs=['check_string_length_contract'],
         old='    if length < min_length:', new='    if length <= min_length:',
         expect='length/'),
]

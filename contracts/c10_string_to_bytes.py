"""C10 - string_to_bytes computes the exact byte quantity or raises ValueError.

Three layers:

1. Regex lemmas (z3 regular languages, translated from the REAL pattern
   strings read out of strutils.UNIT_SYSTEM_INFO on every run): the language
   re.match accepts for each unit system EQUALS the grammar of the property,
   [sign]number[prefix]unit with the prefixes that system admits.  A failing
   lemma yields a witness string that is replayed on the real function.

2. The body of string_to_bytes proved for every (unit system, prefix, unit,
   return_int) combination - a finite, exhaustive case split - with the
   regex match replaced by its assumed contract (A-RE: `match` returns the
   groups number / prefix / unit of the accepted text, or None): result ==
   NUM * base**exponent (/8 for bit units), ceiling for return_int; any
   rejected text and any unknown unit system raise ValueError and nothing
   else (in particular no KeyError from the exponent table).  NUM is the
   value of float(number) as an uninterpreted real (A-FLOAT: floats are
   reals; float() accepts every string of the number grammar).

3. QemuImgInfo._extract_bytes: control flow against the same arithmetic, and
   a bounded family on the real functions (exact rational oracle).
"""
from pyvc.api import (proof, bounded, load, model, fresh_str, fresh_real,
                      fresh_int, pick, assume, check, in_lang, re_lang,
                      parses_as_float, float_of, int_of, implies, blank, neg,
                      unmodelled)

SU = 'oslo_utils/strutils.py'
QE = 'oslo_utils/imageutils/qemu.py'
UN = 'oslo_utils/units.py'

NUMBER = r'[-+]?\d*\.?\d+'
UNITS = ['b', 'bit', 'B']
RANKS = 'kMGTPEZYRQ'          # exponent = position + 1 (k and K both 1)

# the prefixes each system admits, from the property / docstring
ADMITTED = {
    'IEC': [c + s for c in 'KMGTPEZYRQ' for s in ('', 'i')],
    'SI': list('kMGTPEZYRQ'),
    'mixed': [c + s for c in 'kKMGTPEZYRQ' for s in ('', 'i')],
}
GRAMMAR = {
    'IEC': NUMBER + r'([KMGTPEZYRQ]i?)?(b|bit|B)',
    'SI': NUMBER + r'([kMGTPEZYRQ])?(b|bit|B)',
    'mixed': NUMBER + r'([kKMGTPEZYRQ]i?)?(b|bit|B)',
}


def rank(prefix):
    c = prefix[0]
    if c == 'K':
        c = 'k'
    return RANKS.index(c) + 1


def spec_base(system, prefix):
    if system == 'IEC':
        return 1024
    if system == 'SI':
        return 1000
    return 1024 if prefix.endswith('i') else 1000


# ---------------------------------------------------------------------------
# 1. regex lemmas


@proof('C10', targets=[(SU, 'UNIT_SYSTEM_INFO')],
       assumes=['A-RE-UNIVERSE: strings over code points <= 0x2FFFF'])
def accepted_language_is_the_documented_grammar():
    S = load(SU)
    system = pick('unit_system', ['IEC', 'SI', 'mixed'])
    base, rx = S.UNIT_SYSTEM_INFO[system]
    check('table/base-of-%s' % system,
          base == {'IEC': 1024, 'SI': 1000, 'mixed': None}[system])
    x = fresh_str('text')
    accepted = in_lang(x, re_lang(rx, mode='match'))
    documented = in_lang(x, re_lang(GRAMMAR[system]))
    check('regex/%s-accepts-only-the-documented-form' % system,
          implies(accepted, documented))
    check('regex/%s-accepts-every-documented-form' % system,
          implies(documented, accepted))


@proof('C10', targets=[(SU, 'UNIT_SYSTEM_INFO')])
def system_table_has_exactly_the_three_systems():
    S = load(SU)
    check('table/systems', sorted(S.UNIT_SYSTEM_INFO.keys())
          == ['IEC', 'SI', 'mixed'])
    for system in ['IEC', 'SI', 'mixed']:
        for p in ADMITTED[system]:
            check('table/exponent-of-admitted-prefix',
                  p in S.UNIT_PREFIX_EXPONENT
                  and S.UNIT_PREFIX_EXPONENT[p] == rank(p))


@proof('C10', targets=[(UN, 'units')])
def units_constants():
    U = load(UN)
    names = ['Ki', 'Mi', 'Gi', 'Ti', 'Pi', 'Ei', 'Zi', 'Yi', 'Ri', 'Qi']
    for i, n in enumerate(names):
        check('units/binary-%s' % n, getattr(U, n) == 1024 ** (i + 1))
    names = ['k', 'M', 'G', 'T', 'P', 'E', 'Z', 'Y', 'R', 'Q']
    for i, n in enumerate(names):
        check('units/decimal-%s' % n, getattr(U, n) == 1000 ** (i + 1))


# ---------------------------------------------------------------------------
# 2. the function body, for every combination


class FakeMatch:
    """The part of re.Match the groups can be read through."""

    def __init__(self, groups):
        self._groups = tuple(groups)

    def group(self, *idx):
        if not idx:
            idx = (0,)
        out = []
        for i in idx:
            if i == 0:
                unmodelled('Match.group(0)')
            out.append(self._groups[i - 1])
        return out[0] if len(out) == 1 else tuple(out)

    def groups(self, default=None):
        return tuple(default if g is None else g for g in self._groups)

    def __getitem__(self, i):
        return self.group(i)

    def __bool__(self):
        return True


class FakePattern:
    """Assumed contract of reg_ex.match (A-RE): the groups of the accepted
    text, or None for a rejected one."""

    def __init__(self, result):
        self.result = result

    def match(self, text):
        return self.result


@proof('C10', targets=[(SU, 'string_to_bytes')],
       assumes=['A-FLOAT: floats are reals; float() accepts the number '
                'grammar', 'A-RE: match returns the groups of the accepted '
                'text'])
def value_for_every_system_prefix_unit():
    S = load(SU)
    system = pick('unit_system', ['IEC', 'SI', 'mixed'])
    prefix = pick('prefix', [None] + ADMITTED[system])
    unit = pick('unit', UNITS)
    return_int = pick('return_int', [False, True])
    number = fresh_str('number')
    assume(in_lang(number, re_lang(NUMBER)), parses_as_float(number))
    text = number + (prefix or '') + unit
    table = dict(S.UNIT_SYSTEM_INFO)
    table[system] = (S.UNIT_SYSTEM_INFO[system][0],
                     FakePattern(FakeMatch([number, prefix, unit])))
    model(S, 'UNIT_SYSTEM_INFO', table)
    result = S.string_to_bytes(text, unit_system=system,
                               return_int=return_int)
    num = float_of(number)
    if unit != 'B':
        num = num / 8
    if prefix:
        want = num * pow(spec_base(system, prefix), rank(prefix))
    else:
        want = num
    if return_int:
        # ceiling: the least integer >= want
        check('value/ceiling', result >= want and result - 1 < want
              and result == int(result))
    else:
        check('value/exact', result == want)


@proof('C10', targets=[(SU, 'string_to_bytes')])
def rejected_text_and_unknown_system_raise_valueerror():
    S = load(SU)
    text = fresh_str('text')
    system = pick('unit_system', ['IEC', 'SI', 'mixed', 'iec', '', 'SI2'])
    if system in ('IEC', 'SI', 'mixed'):
        assume(neg(in_lang(text, re_lang(S.UNIT_SYSTEM_INFO[system][1],
                                         mode='match'))))
        table = dict(S.UNIT_SYSTEM_INFO)
        table[system] = (S.UNIT_SYSTEM_INFO[system][0], FakePattern(None))
        model(S, 'UNIT_SYSTEM_INFO', table)
    raised = None
    try:
        S.string_to_bytes(text, unit_system=system,
                          return_int=pick('return_int', [False, True]))
    except Exception as e:
        raised = e
    check('rejected-input-raises-valueerror-and-nothing-else',
          isinstance(raised, ValueError))


# ---------------------------------------------------------------------------
# 3. QemuImgInfo._extract_bytes


@proof('C10', targets=[(QE, 'QemuImgInfo._extract_bytes')], native=False,
       assumes=['A-RE: SIZE_RE.search returns the groups of the first match'])
def extract_bytes_control_flow():
    Q = load(QE)
    S = load(SU)
    info = blank(Q.QemuImgInfo)
    case = pick('case', ['no-match', 'bytes-hint', 'no-unit', 'short-unit',
                         'full-unit', 'B-unit'])
    magnitude = pick('magnitude', ['10', '1.5', '.5', '0', '007'])
    nbytes = pick('n_bytes', ['0', '12345', '1099511627777'])
    calls = []

    def fake_string_to_bytes(text, unit_system='IEC', return_int=False):
        calls.append((text, unit_system, return_int))
        return 4242
    if case == 'no-match':
        groups = None
    elif case == 'bytes-hint':
        groups = [magnitude, pick('unit_with_hint', [None, 'G', 'MiB']),
                  ' (x bytes)', nbytes]
    elif case == 'no-unit':
        groups = [magnitude, None, None, None]
    elif case == 'short-unit':
        groups = [magnitude, pick('short_unit', ['K', 'M', 'G', 'T', 'k']),
                  None, None]
    elif case == 'B-unit':
        groups = [magnitude, 'B', None, None]
    else:
        groups = [magnitude, pick('long_unit', ['KB', 'MiB', 'GB', 'Kb']),
                  None, None]
    model(Q.QemuImgInfo, 'SIZE_RE',
          FakeSearch(None if groups is None else FakeMatch(groups)))
    model(S, 'string_to_bytes', fake_string_to_bytes)
    try:
        r = info._extract_bytes('whatever')
    except ValueError:
        check('extract/valueerror-only-without-match-or-bad-int',
              case == 'no-match' or (case == 'no-unit' and '.' in magnitude))
        return
    if case == 'bytes-hint':
        check('extract/explicit-byte-figure-takes-precedence',
              r == int_of(nbytes) and calls == [])
    elif case == 'no-unit':
        check('extract/no-unit-is-a-byte-count', r == int_of(magnitude)
              and calls == [])
    else:
        unit = groups[1]
        full = unit if (len(unit) > 1 or unit == 'B') else unit + 'B'
        check('extract/delegates-with-same-arithmetic',
              r == 4242 and len(calls) == 1 and calls[0][2] == True  # noqa
              and calls[0][1] == 'IEC')
        check('extract/text-is-magnitude-plus-unit',
              calls[0][0] == magnitude + full)


class FakeSearch:
    def __init__(self, result):
        self.result = result

    def search(self, text):
        return self.result


# ---------------------------------------------------------------------------
# bounded family on the real functions (exact rational oracle)


@bounded('C10', targets=[(SU, 'string_to_bytes'),
                         (QE, 'QemuImgInfo._extract_bytes')],
         bound='signs x 14 magnitudes x all 22 prefixes + 6 foreign x units '
               '{b,bit,B,bits,Bit,""} x systems {IEC,SI,mixed,iec} x '
               'return_int; exact Fraction oracle where the float result is '
               'exact, else 1e-12 relative')
def string_to_bytes_family():
    import fractions
    import math
    S = load(SU)
    mags = ['0', '1', '7', '10', '1.5', '.5', '0.125', '123456789', '3.0',
            '1024', '0.0009765625', '999', '2.25', '65536',
            '0.000000059604644775390625', '3.000000059604644775390625',
            '0.999999940395355224609375']
    bad_mags = ['', '1.', '1e3', 'x', '1,5', '--1', ' 1', '1 ']
    foreign = ['X', 'ki', 'Ki', 'K', 'k', 'mi', 'KI', 'iK', 'Kii']
    all_prefixes = sorted(set(ADMITTED['IEC'] + ADMITTED['SI']
                              + ADMITTED['mixed'] + foreign))
    for system in ['IEC', 'SI', 'mixed', 'iec', '', None, 'IEC ', 0]:
        for sign in ['', '+', '-']:
            for mag in mags + bad_mags:
                for prefix in [''] + all_prefixes:
                    for unit in ['b', 'bit', 'B', 'bits', 'Bit', '']:
                        for ri in (False, True):
                            text = sign + mag + prefix + unit
                            ok = (isinstance(system, str)
                                  and system in ADMITTED and mag in mags
                                  and (prefix == ''
                                       or prefix in ADMITTED[system])
                                  and unit in UNITS)
                            try:
                                r = S.string_to_bytes(text, system, ri)
                                exc = None
                            except ValueError:
                                exc = 'ValueError'
                            except Exception as e:
                                exc = type(e).__name__
                            if not ok:
                                check('family/invalid-raises-valueerror',
                                      exc == 'ValueError',
                                      detail=(text, system, exc))
                                continue
                            check('family/valid-does-not-raise', exc is None,
                                  detail=(text, system, exc))
                            if exc is not None:
                                continue
                            q = fractions.Fraction(sign + mag if mag[0] != '.'
                                                   else sign + '0' + mag)
                            if unit != 'B':
                                q = q / 8
                            if prefix:
                                q = q * spec_base(system, prefix) ** rank(
                                    prefix)
                            if ri:
                                want = math.ceil(q)
                                # exact oracle only where the true quantity
                                # (and hence every intermediate) is a double
                                exact = (abs(q) < 2 ** 52 and
                                         fractions.Fraction(float(q)) == q)
                                check('family/ceiling',
                                      r == want if exact
                                      else abs(r - want) <= max(
                                          1, abs(want) * 1e-12),
                                      detail=(text, system, r, want))
                            else:
                                check('family/value',
                                      abs(fractions.Fraction(r) - q)
                                      <= abs(q) * fractions.Fraction(1,
                                                                     10**12),
                                      detail=(text, system, r, float(q)))
    for t in ['1KB\n', '1KB ', '\n1KB', '1 KB', '1KB\x00']:
        try:
            S.string_to_bytes(t)
            exc = None
        except ValueError:
            exc = 'ValueError'
        check('family/stray-whitespace-raises-valueerror',
              exc == 'ValueError', detail=repr(t))


@bounded('C10', targets=[(QE, 'QemuImgInfo._extract_bytes'),
                         (QE, 'QemuImgInfo.SIZE_RE')],
         bound='human size fields: magnitudes x units {none,K,M,G,T,KB,KiB,'
               'MiB,GiB,B} x optional "(N bytes)" hint x exponent forms')
def qemu_human_sizes_family():
    import math
    import fractions
    Q = load(QE)
    info = Q.QemuImgInfo.__new__(Q.QemuImgInfo)
    mult = {'': 1, 'B': 1, 'K': 1024, 'KB': 1024, 'KiB': 1024,
            'M': 1024 ** 2, 'MiB': 1024 ** 2, 'G': 1024 ** 3,
            'GiB': 1024 ** 3, 'T': 1024 ** 4, 'TiB': 1024 ** 4}
    for mag in ['0', '1', '64', '1.5', '2.25', '10', '193', '.5']:
        for unit, m in mult.items():
            for hint in [None, 0, 1, 12345, 2 ** 40 + 1]:
                if unit == '' and '.' in mag:
                    continue
                text = mag + (' ' if unit else '') + unit
                if hint is not None:
                    text += ' (%d bytes)' % hint
                try:
                    r = info._extract_bytes(text)
                    exc = None
                except Exception as e:
                    r, exc = None, type(e).__name__
                if hint is not None:
                    want = hint
                else:
                    want = math.ceil(fractions.Fraction(
                        mag if mag[0] != '.' else '0' + mag) * m)
                check('qemu/size-field', exc is None and r == want,
                      detail=(text, r, want, exc))
    for text, want in [('1e+03 GiB (1073217536000 bytes)', 1073217536000),
                       ('2e+00 KiB', 2048)]:
        check('qemu/exponent-form', info._extract_bytes(text) == want,
              detail=text)
    for text in ['', 'abc', '()']:
        try:
            info._extract_bytes(text)
            exc = None
        except ValueError:
            exc = 'ValueError'
        except Exception as e:
            exc = type(e).__name__
        check('qemu/no-size-raises-valueerror', exc == 'ValueError',
              detail=(text, exc))


CANARIES = [
    dict(name='mixed-without-i-uses-1024', file=SU,
         proofs=['value_for_every_system_prefix_unit'],
         old="                base = 1000\n            else:\n                base = 1024",
         new="                base = 1024\n            else:\n                base = 1000",
         expect='value/'),
    dict(name='byte-unit-divided-by-8', file=SU,
         proofs=['value_for_every_system_prefix_unit'],
         old="        if match.group(3) in ['b', 'bit']:",
         new="        if match.group(3) in ['b', 'bit', 'B']:", expect='value/'),
    dict(name='exponent-table-entry-changed', file=SU,
         proofs=['system_table_has_exactly_the_three_systems'],
         old="    'Zi': 7,", new="    'Zi': 8,", expect='table/exponent'),
    dict(name='SI-admits-capital-K', file=SU,
         proofs=['accepted_language_is_the_documented_grammar'],
         old="([kMGTPEZYRQ])?(b|bit|B)", new="([kKMGTPEZYRQ])?(b|bit|B)",
         expect='regex/SI-accepts-only'),
    dict(name='unknown-system-keyerror', file=SU,
         proofs=['rejected_text_and_unknown_system_raise_valueerror'],
         old="    except KeyError:\n        msg = _('Invalid unit system: \"%s\"') % unit_system\n        raise ValueError(msg)",
         new="    except IndexError:\n        msg = _('Invalid unit system: \"%s\"') % unit_system\n        raise ValueError(msg)",
         expect=''),
]

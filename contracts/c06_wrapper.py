# also: C03 C01 C02
"""C06 / C03 - InspectWrapper: transparent fault-isolating pipe (C06) and the
detection decision table (C03), proved with the inspectors ABSTRACT: each
inspector is a havoc object whose eat_chunk may raise any Exception or not,
and whose complete / format_match are arbitrary booleans (they cannot raise:
that is the per-class totality obligation of c02_inspectors / c07_*).  So the
proofs hold "whatever the inspectors do".

Wrapper state is arbitrary: any subset of the inspectors already errored, any
expected_format, any iteration order of the inspector set (explored over all
permutations of three inspectors, because Python set order is arbitrary).
"""
from pyvc.api import (proof, load, blank, model, patch, fresh_bool, fresh_int,
                      fresh_str,
                      pick,
                      assume,
                      check, cover, same, implies, conj, disj, neg)

FI = 'oslo_utils/imageutils/format_inspector.py'

PERMS3 = [[0, 1, 2], [0, 2, 1], [1, 0, 2], [1, 2, 0], [2, 0, 1], [2, 1, 0]]


def make_fake_class(M):
    class Boom(Exception):
        pass

    class Fake(M.FileInspector):
        """Havoc inspector: behaviour chosen by the proof's symbolic flags."""

        def _initialize(self):
            self.add_safety_check(M.SafetyCheck.null())
            self.calls = []
            self.finish_calls = 0
            self.will_raise = False
            self.exc = None
            self.c = True
            self.m = False
            self.queried_after_raise = False
            self.raised = False
            self.poisoned = False
            self.queries = 0

        def eat_chunk(self, chunk):
            self.calls.append(chunk)
            if self.will_raise:
                self.raised = True
                raise self.exc

        def finish(self):
            self.finish_calls += 1

        @property
        def complete(self):
            self.queries += 1
            if self.poisoned:
                raise Boom('complete is broken')
            return self.c

        @property
        def format_match(self):
            self.queries += 1
            if self.poisoned:
                raise Boom('format_match is broken')
            return self.m

    return Fake, Boom


def make_wrapper(M, names, order, source, expected):
    Fake, Boom = make_fake_class(M)
    fakes = []
    for i, nm in enumerate(names):
        f = Fake()
        f.NAME = nm
        f.idx = i
        fakes.append(f)
    return Fake, Boom, fakes


def blank_wrapper(M, fakes, order, source, expected, errored):
    """A wrapper over the havoc inspectors, built by the REAL __init__ (so
    that whatever __init__ sets up - today or after a refactoring - is set
    up): the registry is replaced by one that hands out the prepared
    inspectors, in the wanted set order."""
    registry = {}
    for i in order:
        registry[fakes[i].NAME] = (lambda f=fakes[i]: f)
    patch(M, 'ALL_FORMATS', registry)
    w = M.InspectWrapper(source, expected)
    for f, e in zip(fakes, errored):
        if e:
            w._errored_inspectors.add(f)
    return w


EXC_KINDS = ['ValueError', 'ImageFormatError', 'KeyError', 'custom',
             'no-args']


def make_exc(M, Boom, kind):
    if kind == 'ValueError':
        return ValueError('bad')
    if kind == 'ImageFormatError':
        return M.ImageFormatError('bad')
    if kind == 'KeyError':
        return KeyError('k')
    if kind == 'no-args':
        return RuntimeError()
    return Boom('custom')


@proof(['C06', 'C01'], targets=[(FI, 'InspectWrapper._process_chunk')])
def process_chunk_isolates_faults():
    process_chunk_proof('<symbolic>')


@proof(['C06', 'C01'], targets=[(FI, 'InspectWrapper._process_chunk')])
def process_chunk_isolates_faults_named_formats():
    """The same obligations with expected_format ranging over concrete
    names that are prefixes / extensions / equal copies of the inspector
    names (cheap: no string solving), so that a substring or identity test in
    place of == is refuted within the quick budget."""
    process_chunk_proof(pick('expected_name', [None, 'vhd', 'vhdx', 'raw',
                                               'iso', '', 'vh', 'vhdxx',
                                               'ra']))


def process_chunk_proof(fixed_expected):
    M = load(FI)
    names = ['vhd', 'vhdx', 'raw']
    Fake, Boom, fakes = make_wrapper(M, names, None, None, None)
    order = pick('set_order', PERMS3)
    # any expected_format: None or an arbitrary string (a format name, a
    # prefix or extension of one, the empty string, ...)
    if fixed_expected != '<symbolic>':
        expected = fixed_expected
    elif pick('expected_given', [False, True]):
        expected = fresh_str('expected_format')
    else:
        expected = None
    errored = pick('already_errored', [[False, False, False],
                                       [True, False, False],
                                       [False, True, False],
                                       [False, True, True]])
    w = blank_wrapper(M, fakes, order, None, expected, errored)
    kind = pick('exception_class', EXC_KINDS)
    for i, f in enumerate(fakes):
        f.will_raise = fresh_bool('raises%d' % i)
        f.exc = make_exc(M, Boom, kind)
        f.c = fresh_bool('complete%d' % i)
        f.m = fresh_bool('match%d' % i)
        # an inspector other than the expected one may even be broken in its
        # complete / format_match: the wrapper has no business asking it
        if f.NAME != expected and i == 0:
            f.poisoned = pick('first_inspector_queries_raise', [False, True])
    chunk = b'some chunk'
    errored_before = set(w._errored_inspectors)
    escaped = None
    try:
        w._process_chunk(chunk)
    except Exception as e:
        escaped = e
    # --- nothing but the expected format's inspector can break the stream
    for i, f in enumerate(fakes):
        if f in errored_before:
            check('errored-inspector-never-fed-again', len(f.calls) == 0,
                  'C06')
        else:
            check('fed-at-most-once-with-the-identical-chunk',
                  len(f.calls) <= 1 and all([c is chunk for c in f.calls]),
                  'C06 C01')
            if escaped is None:
                check('every-live-inspector-fed-exactly-once',
                      len(f.calls) == 1, 'C06 C01')
        if f.raised and f.NAME != expected:
            check('failed-inspector-recorded-as-errored',
                  f in w._errored_inspectors, 'C06')
    check('errored-set-only-grows',
          all([f in w._errored_inspectors for f in errored_before]), 'C06')
    check('errored-set-holds-only-failed-inspectors',
          all([(f in errored_before) or f.raised
               for f in w._errored_inspectors]), 'C06')
    exp = [f for f in fakes if f.NAME == expected
           and f not in errored_before]
    if escaped is None:
        check('no-escape-means-expected-inspector-is-fine',
              all([(not f.raised) and not (f.c and not f.m) for f in exp
                   if len(f.calls) == 1]), 'C06')
    else:
        check('only-the-expected-format-can-stop-the-stream',
              len(exp) == 1, 'C06')
        f = exp[0] if exp else None
        if f is not None:
            if f.raised:
                check('expected-inspector-error-propagates-unchanged',
                      escaped is f.exc, 'C06')
            else:
                check('mismatch-abort-is-ImageFormatError-iff-complete-and-'
                      'not-matching',
                      isinstance(escaped, M.ImageFormatError)
                      and f.c and not f.m, 'C06')
    # an expected inspector that fails or completes without matching always
    # stops the stream
    for f in exp:
        if len(f.calls) == 1 and (f.raised or (f.c and not f.m)):
            check('expected-format-failure-always-cuts-the-stream',
                  escaped is not None, 'C06')


class _Src:
    pass


@proof(['C06', 'C01'], targets=[(FI, 'InspectWrapper.read'),
                                (FI, 'InspectWrapper.__next__'),
                                (FI, 'InspectWrapper.__iter__'),
                                (FI, 'InspectWrapper._finish'),
                                (FI, 'InspectWrapper.close')])
def read_and_iterate_are_transparent():
    M = load(FI)
    Fake, Boom, fakes = make_wrapper(M, ['qcow2', 'vmdk', 'raw'], None, None,
                                     None)

    class Source:
        def __init__(self):
            self.read_calls = []
            self.next_calls = 0
            self.close_calls = 0
            self.exhausted = False

        def read(self, size):
            self.read_calls.append(size)
            return the_chunk

        def __next__(self):
            self.next_calls += 1
            if self.exhausted:
                raise StopIteration()
            return the_chunk

        def close(self):
            self.close_calls += 1

    the_chunk = pick('chunk', [b'abc', b''])
    src = Source()
    src.exhausted = pick('source_exhausted', [False, True])
    expected = pick('expected_format', [None, 'qcow2'])
    w = blank_wrapper(M, fakes, [0, 1, 2], src, expected,
                      [False, False, False])
    f0 = fakes[0]
    f0.will_raise = pick('expected_inspector_raises', [False, True])
    f0.exc = Boom('x')
    f0.c = fresh_bool('c0')
    f0.m = fresh_bool('m0')
    mode = pick('mode', ['read', 'next', 'close'])
    check('iter-returns-self', w.__iter__() is w, 'C06')
    if mode == 'read':
        size = fresh_int('size', 0)
        try:
            out = w.read(size)
        except Exception as e:
            check('read/raises-only-for-expected-format',
                  expected == 'qcow2' and (f0.raised or (f0.c and not f0.m)),
                  'C06')
            check('read/source-read-once-before-abort',
                  src.read_calls == [size], 'C06')
            return
        check('read/returns-the-source-object-unchanged', out is the_chunk,
              'C06 C01')
        check('read/source-read-exactly-once-with-size',
              src.read_calls == [size] and src.next_calls == 0, 'C06')
        check('read/every-inspector-saw-the-chunk',
              all([len(f.calls) == 1 and f.calls[0] is the_chunk
                   for f in fakes]), 'C06 C01')
        check('read/empty-chunk-does-not-finish', w._finished == False,  # noqa
              'C06 C01')
    elif mode == 'next':
        try:
            out = w.__next__()
        except StopIteration:
            check('next/stopiteration-iff-source-exhausted', src.exhausted,
                  'C06')
            check('next/finish-on-exhaustion',
                  w._finished and all([f.finish_calls == 1 for f in fakes]),
                  'C06 C01')
            check('next/nothing-fed-on-exhaustion',
                  all([len(f.calls) == 0 for f in fakes]), 'C06')
            return
        except Exception as e:
            check('next/raises-only-for-expected-format',
                  expected == 'qcow2' and (f0.raised or (f0.c and not f0.m)),
                  'C06')
            return
        check('next/not-exhausted', not src.exhausted, 'C06')
        check('next/returns-the-source-object-unchanged', out is the_chunk,
              'C06 C01')
        check('next/source-advanced-exactly-once', src.next_calls == 1
              and src.read_calls == [], 'C06')
        check('next/every-inspector-saw-the-chunk',
              all([len(f.calls) == 1 and f.calls[0] is the_chunk
                   for f in fakes]), 'C06 C01')
        check('next/not-finished', w._finished == False, 'C06')  # noqa: E712
    else:
        w.close()
        check('close/source-closed-once', src.close_calls == 1, 'C06')
        check('close/finishes-every-inspector-once',
              w._finished and all([f.finish_calls == 1 for f in fakes]),
              'C06 C01')
        check('close/feeds-nothing', all([len(f.calls) == 0 for f in fakes])
              and src.read_calls == [] and src.next_calls == 0, 'C06')


@proof(['C06'], targets=[(FI, 'InspectWrapper.close')])
def close_without_close_method():
    M = load(FI)
    Fake, Boom, fakes = make_wrapper(M, ['qcow2', 'raw'], None, None, None)

    class Bare:
        __absent__ = ('close',)
    w = blank_wrapper(M, fakes, [0, 1], Bare(), None, [False, False])
    w.close()
    check('close/source-without-close-is-fine',
          w._finished and all([f.finish_calls == 1 for f in fakes]), 'C06')


# ---------------------------------------------------------------------------
# C03 decision table


@proof(['C03', 'C02'], targets=[(FI, 'InspectWrapper.formats'),
                         (FI, 'InspectWrapper.format')])
def detection_decision_table():
    M = load(FI)
    with_raw = pick('raw_allowed', [True, False])
    names = ['qcow2', 'vmdk', 'iso'] + (['raw'] if with_raw else [])
    Fake, Boom, fakes = make_wrapper(M, names, None, None, None)
    order = pick('set_order', PERMS3)
    order = order + ([3] if with_raw else [])
    if with_raw and pick('raw_first', [False, True]):
        order = [3] + order[:3]
    # the decision must not depend on which inspectors have errored
    errored = pick('errored', [[], [0], [1, 2], [0, 1, 2]])
    w = blank_wrapper(M, fakes, order, None, None,
                      [i in errored for i in range(len(fakes))])
    w._finished = fresh_bool('finished')
    for i in range(3):
        fakes[i].c = fresh_bool('complete%d' % i)
        fakes[i].m = fresh_bool('match%d' % i)
    if with_raw:
        fakes[3].c = True
        fakes[3].m = True
    non_raw = fakes[:3]
    all_complete = conj([f.c for f in non_raw])
    undecided = conj(neg(all_complete), neg(w._finished))
    n_match = sum([1 if f.m else 0 for f in non_raw])
    # ---- formats
    fs = w.formats
    check('formats/none-iff-undecided', (fs is None) == undecided)
    if fs is not None:
        check('formats/never-raw-together-with-another',
              not (len(fs) > 1 and any([f.NAME == 'raw' for f in fs])))
        if n_match > 0:
            check('formats/exactly-the-matching-non-raw',
                  len(fs) == n_match and all(
                      [(f in fs) == f.m for f in non_raw]))
        else:
            check('formats/raw-only-when-nothing-else-and-allowed',
                  fs == ([fakes[3]] if with_raw else []))
    # ---- format
    try:
        r = w.format
    except M.ImageFormatError:
        check('format/error-iff-ambiguous-or-nothing-allowed',
              neg(undecided) and (n_match > 1
                                  or (n_match == 0 and not with_raw)))
        return
    if r is None:
        check('format/none-iff-undecided', undecided)
    else:
        check('format/decided', neg(undecided))
        if r.NAME == 'raw':
            check('format/raw-only-if-nothing-else-matches-and-allowed',
                  n_match == 0 and with_raw and r is fakes[3])
        else:
            check('format/specific-format-matches-exclusively',
                  r.m and n_match == 1)


@proof(['C03'], targets=[(FI, 'InspectWrapper.formats'),
                         (FI, 'InspectWrapper.format')],
       assumes=['per-inspector stability (complete stays complete, '
                'format_match then keeps its value, a complete inspector '
                'does not fail later) is discharged per class: '
                'verdict_is_stable_once_complete (c02_inspectors), '
                'vhdx_decision_is_not_revised (c07_vhdx), '
                'vmdk_sparse_decision_is_not_revised (c02_vmdk)'])
def decision_is_not_revised_by_reading_further():
    """A decision reported before the end of the stream stays the same after
    any further reads and after EOF - given that every inspector's
    (complete, format_match) is stable once complete."""
    M = load(FI)
    with_raw = pick('raw_allowed', [True, False])
    names = ['qcow2', 'vmdk', 'iso'] + (['raw'] if with_raw else [])
    Fake, Boom, fakes = make_wrapper(M, names, None, None, None)
    w = blank_wrapper(M, fakes, list(range(len(fakes))), None, None,
                      [False] * len(fakes))
    for i in range(3):
        fakes[i].c = fresh_bool('complete%d' % i)
        fakes[i].m = fresh_bool('match%d' % i)
    if with_raw:
        fakes[3].c = True
        fakes[3].m = True
    first = 'error'
    try:
        first = w.format
    except M.ImageFormatError:
        pass
    first_all = None if first is None or first == 'error' else w.formats
    # ---- later: more data has been read, possibly EOF
    for i in range(3):
        c1 = fresh_bool('complete_later%d' % i)
        m1 = fresh_bool('match_later%d' % i)
        assume(implies(fakes[i].c, conj(c1, m1 == fakes[i].m)))
        fakes[i].c = c1
        fakes[i].m = m1
    w._finished = fresh_bool('finished_later')
    second = 'error'
    try:
        second = w.format
    except M.ImageFormatError:
        pass
    if first is None:
        return
    if first == 'error':
        check('no-revision/ambiguity-error-kept', second == 'error')
    else:
        check('no-revision/decision-kept', second is first)
    if first != 'error':
        check('no-revision/formats-kept', w.formats == first_all)


@proof(['C03', 'C06'], targets=[(FI, 'InspectWrapper.__init__'),
                         (FI, 'get_inspector')])
def allowed_formats_limit_the_inspector_set():
    M = load(FI)
    ALL = ['raw', 'qcow2', 'vhd', 'vhdx', 'vmdk', 'vdi', 'qed', 'iso', 'gpt',
           'luks']
    allowed = pick('allowed_formats', [None, [], ['raw'], ['qcow2', 'raw'],
                                       ['vmdk'], ['iso', 'gpt', 'luks'],
                                       ('vhd', 'vhdx'), ['nonsense'], ALL])
    src = object()
    # the expected format plays no part in which formats are considered
    expected = pick('expected_format', [None, 'raw', 'qcow2', 'vmdk',
                                        'nonsense'])
    w = M.InspectWrapper(src, expected, allowed)
    got = sorted([i.NAME for i in w._inspectors])
    if not allowed:
        want = sorted(ALL)
    else:
        want = sorted([n for n in ALL if n in allowed])
    check('init/inspector-set-is-allowed-subset', got == want)
    check('init/one-inspector-per-format',
          len(w._inspectors) == len(want))
    check('init/state', w._source is src and w._expected_format is expected
          and len(w._errored_inspectors) == 0 and w._finished == False)  # noqa
    check('init/registry-complete', sorted(M.ALL_FORMATS.keys()) == sorted(ALL)
          and all([M.get_inspector(n) is M.ALL_FORMATS[n] for n in ALL])
          and M.get_inspector('nope') is None)
    check('init/instances-of-registered-classes',
          all([isinstance(i, M.ALL_FORMATS[i.NAME]) for i in w._inspectors]))


@proof(['C06', 'C01'], targets=[(FI, 'FileInspector.finish'),
                                (FI, 'InspectWrapper._finish'),
                                (FI, 'InspectWrapper.close'),
                                (FI, 'InspectWrapper.__next__')])
def finishing_twice_is_harmless():
    """The wrapper finishes its inspectors when the source is exhausted AND
    again in close(): with the real inspectors neither that, nor a further
    next() on the exhausted wrapper, nor a second close() may raise."""
    M = load(FI)
    name = pick('format', ['raw', 'qcow2', 'qed', 'vhd', 'vhdx', 'vmdk',
                           'vdi', 'iso', 'gpt', 'luks'])
    insp = M.ALL_FORMATS[name]()
    insp.eat_chunk(b'abc')
    insp.finish()
    insp.finish()
    check('finish/idempotent', insp._finished == True)  # noqa
    hist = pick('history', ['iterate-then-close', 'close-twice',
                            'next-after-exhaustion'])
    closed = []

    class Src:
        def __init__(self):
            self.items = iter([b'ab', b'', b'cd'])

        def __iter__(self):
            return self

        def __next__(self):
            return next(self.items)

        def close(self):
            closed.append(1)
    exp = pick('expected_format', [None, 'raw'])
    w = M.InspectWrapper(Src(), exp, [name, 'raw'])
    got = [c for c in w]
    check('finish/iteration-delivers-every-chunk',
          got == [b'ab', b'', b'cd'])
    if hist == 'iterate-then-close':
        w.close()
    elif hist == 'close-twice':
        w.close()
        w.close()
    else:
        stopped = False
        try:
            next(w)
        except StopIteration:
            stopped = True
        check('finish/exhausted-wrapper-keeps-raising-stopiteration',
              stopped)
        w.close()
    check('finish/source-closed', len(closed) >= 1)


CANARIES = [
    dict(name='wrapper-reraises-for-any-format', prop='C06', file=FI,
         proofs=['process_chunk_isolates_faults'],
         old='                if inspector.NAME == self._expected_format:\n                    # If our desired inspector has failed, we cannot continue\n                    raise\n',
         new='                if self._expected_format:\n                    raise\n',
         expect=''),
    dict(name='wrapper-forgets-errored-inspectors', prop='C06', file=FI,
         proofs=['process_chunk_isolates_faults'],
         old='                self._errored_inspectors.add(inspector)\n',
         new='                pass\n', expect='failed-inspector-recorded'),
    dict(name='wrapper-except-narrowed', prop='C06', file=FI,
         proofs=['process_chunk_isolates_faults'],
         old='            except Exception as e:\n                if inspector.NAME == self._expected_format:',
         new='            except ImageFormatError as e:\n                if inspector.NAME == self._expected_format:',
         expect=''),
    dict(name='next-skips-processing', prop='C06', file=FI,
         proofs=['read_and_iterate_are_transparent'],
         old='            raise\n        self._process_chunk(chunk)\n        return chunk',
         new='            raise\n        return chunk',
         expect='next/every-inspector-saw'),
    dict(name='finish-not-called-on-exhaustion', prop='C06', file=FI,
         proofs=['read_and_iterate_are_transparent'],
         old='        except StopIteration:\n            self._finish()\n            raise',
         new='        except StopIteration:\n            raise',
         expect='next/finish-on-exhaustion'),
    dict(name='format-allows-two-matches', prop='C03', file=FI,
         proofs=['detection_decision_table'],
         old='        elif len(matches) > 1:', new='        elif len(matches) > 2:',
         expect='format/'),
    dict(name='formats-ignores-finished-gate', prop='C03', file=FI,
         proofs=['detection_decision_table'],
         old='        if not complete and not self._finished:',
         new='        if not complete:', expect='formats/none-iff'),
    dict(name='allowed-formats-ignored', prop='C03', file=FI,
         proofs=['allowed_formats_limit_the_inspector_set'],
         old='if not allowed_formats or k in allowed_formats}',
         new='if not allowed_formats or k}', expect='init/inspector-set'),
]


# ---------------------------------------------------------------------------
# detect_file_format / FileInspector.from_file (lazy _chunked_reader)


class _NS2:
    pass


@proof(['C03', 'C06'], targets=[(FI, 'detect_file_format'),
                                (FI, '_chunked_reader')], native=False,
       assumes=['generators interleave with their consumer (PEP 255)'])
def detect_file_format_contract():
    """detect_file_format returns the first decision the wrapper reports,
    stops reading there, always closes the wrapper, and lets nothing but
    what wrapper.format raises escape."""
    M = load(FI)
    nchunks = pick('chunks_in_file', [0, 1, 2, 3])
    decide_at = pick('decided_after_read', [None, 1, 2, 3])
    final = pick('final_format', ['inspector', 'ImageFormatError'])
    log = []
    verdict = M.RawFileInspector()

    class FakeWrapper:
        def __init__(self, source):
            self.source = source
            self.reads = 0
            self.closed = False
            log.append('wrapped')

        def read(self, size):
            self.reads += 1
            log.append(('read', size))
            return b'x' if self.reads <= nchunks else b''

        @property
        def format(self):
            if not self.closed:
                if decide_at is not None and self.reads >= decide_at:
                    return verdict
                return None
            if final == 'ImageFormatError':
                raise M.ImageFormatError('ambiguous')
            return verdict

        def close(self):
            self.closed = True
            log.append('close')

    class FakeFile:
        def __enter__(self):
            return self

        def __exit__(self, a, b, c):
            log.append('file-closed')
            return False
    model(M, 'InspectWrapper', FakeWrapper)
    model(M, 'open', lambda path, mode: FakeFile())
    raised = None
    r = None
    try:
        r = M.detect_file_format('/some/file')
    except M.ImageFormatError as e:
        raised = e
    reads = [x for x in log if x != 'wrapped' and x != 'close'
             and x != 'file-closed']
    check('detect/wrapper-always-closed', log.count('close') == 1
          and log.index('close') < log.index('file-closed'), 'C03')
    check('detect/reads-4096-byte-chunks',
          all([x == ('read', 4096) for x in reads]), 'C03')
    early = decide_at is not None and decide_at <= nchunks
    if early:
        check('detect/returns-the-first-decision', r is verdict
              and raised is None, 'C03')
        check('detect/stops-reading-once-decided', len(reads) == decide_at,
              'C03 C06')
    else:
        check('detect/reads-to-the-end-when-undecided',
              len(reads) == nchunks + 1, 'C03')
        check('detect/final-answer-is-the-closed-wrappers-format',
              (r is verdict and raised is None) if final == 'inspector'
              else raised is not None, 'C03')


@proof(['C01', 'C03'], targets=[(FI, 'FileInspector.from_file'),
                                (FI, '_chunked_reader')], native=False,
       assumes=['generators interleave with their consumer (PEP 255)'])
def from_file_contract():
    M = load(FI)
    nchunks = pick('chunks_in_file', [0, 1, 3])
    complete_after = pick('complete_after_chunk', [None, 1, 2])
    matches = pick('format_match', [True, False])
    log = []

    class Scripted(M.RawFileInspector):
        def eat_chunk(self, chunk):
            log.append(('eat', chunk))

        @property
        def complete(self):
            n = len([x for x in log if x[0] == 'eat'])
            return complete_after is not None and n >= complete_after

        @property
        def format_match(self):
            return matches

        def finish(self):
            log.append(('finish',))

    class FakeFile:
        def __init__(self):
            self.reads = 0

        def __enter__(self):
            return self

        def __exit__(self, a, b, c):
            log.append(('file-closed',))
            return False

        def read(self, size):
            self.reads += 1
            log.append(('read', size))
            return b'x' * size if self.reads <= nchunks else b''
    model(M, 'open', lambda path, mode: FakeFile())
    raised = None
    r = None
    try:
        r = Scripted.from_file('/some/file')
    except M.ImageFormatError as e:
        raised = e
    eats = [x for x in log if x[0] == 'eat']
    reads = [x for x in log if x[0] == 'read']
    done = complete_after is not None and complete_after <= nchunks
    check('from_file/512-byte-reads', all([x == ('read', 512)
                                           for x in reads]), 'C01')
    check('from_file/every-chunk-read-is-presented-once',
          len(eats) == (complete_after if done else nchunks), 'C01')
    check('from_file/stops-reading-once-complete',
          len(reads) == (complete_after if done else nchunks + 1), 'C01')
    check('from_file/finish-called-after-the-file-is-closed',
          log.count(('finish',)) == 1
          and log.index(('file-closed',)) < log.index(('finish',)), 'C01')
    check('from_file/error-iff-incomplete-or-mismatch',
          (raised is not None) == (not (done and matches)), 'C03 C01')
    if raised is None:
        check('from_file/returns-the-inspector', isinstance(r, Scripted),
              'C01')


CANARIES = CANARIES + [
    dict(name='detect-close-outside-finally', prop='C03', file=FI,
         proofs=['detect_file_format_contract'],
         old="        try:\n            for _chunk in _chunked_reader(wrapper, 4096):\n                if wrapper.format:\n                    return wrapper.format\n        finally:\n            wrapper.close()\n        return wrapper.format",
         new="        for _chunk in _chunked_reader(wrapper, 4096):\n            if wrapper.format:\n                return wrapper.format\n        wrapper.close()\n        return wrapper.format",
         expect='detect/wrapper-always-closed'),
    dict(name='detect-never-returns-early', prop='C03', file=FI,
         proofs=['detect_file_format_contract'],
         old="                if wrapper.format:\n                    return wrapper.format\n",
         new="                if wrapper.format:\n                    pass\n",
         expect='detect/'),
    dict(name='from-file-keeps-reading', prop='C01', file=FI,
         proofs=['from_file_contract'],
         old="                if inspector.complete:\n                    # No need to eat any more data\n                    break\n",
         new="                if inspector.complete:\n                    pass\n",
         expect='from_file/'),
]

# also: C01 C05
"""C07 / C01 / C05 - VHDX: the two table walks and the region bookkeeping.

_find_meta_region and _find_meta_entry loop over a table whose entry count is
read from the image: the loops are cut by invariants ("no earlier entry
matched") and the results are specified with bounded quantifiers over the
table - every count 0..2047, every position of the matching entry, arbitrary
other entries.  GUID comparison goes through the real _guid(): the rendered
'%08X-%04X-...' text is compared with the constant by injectivity of
fixed-width hex (no assumption).  D / T are the symbolic contents of the
header region (64 KiB) and of the metadata region buffered so far.
"""
from pyvc.api import (proof, load, invariant, fresh_int, fresh_bytes, pick,
                      assume, check, implies, conj, disj, neg, le, byte_at,
                      forall_int, stub)

FI = 'oslo_utils/imageutils/format_inspector.py'
H = 196608
HEND = H + 65536

# fields of the two GUIDs as rendered by _guid: <I <H <H then 8 single bytes
META = (0x8B7CA206, 0x4790, 0x4B9A, [0xB8, 0xFE, 0x57, 0x5F, 0x05, 0x0F,
                                     0x88, 0x6E])
VDS = (0x2FA54224, 0xCD1B, 0x4876, [0xB2, 0x11, 0x5D, 0xBE, 0xD8, 0x3B, 0xF4,
                                    0xB8])


def guid_at(B, off, g):
    return conj([le(B, off, 4) == g[0], le(B, off + 4, 2) == g[1],
                 le(B, off + 6, 2) == g[2]]
                + [byte_at(B, off + 8 + t) == g[3][t] for t in range(8)])


@proof(['C07', 'C01'], targets=[(FI, 'VHDXInspector._guid')])
def guid_constants_match_their_rendering():
    M = load(FI)
    b = fresh_bytes('buf', length=16)
    text = M.VHDXInspector._guid(b)
    check('guid/metaregion-text-iff-its-bytes',
          (text == M.VHDXInspector.METAREGION) == guid_at(b, 0, META))
    check('guid/vds-text-iff-its-bytes',
          (text == M.VHDXInspector.VIRTUAL_DISK_SIZE) == guid_at(b, 0, VDS))
    check('guid/constants', M.VHDXInspector.METAREGION
          == '8B7CA206-4790-4B9A-B8FE-575F050F886E'
          and M.VHDXInspector.VIRTUAL_DISK_SIZE
          == '2FA54224-CD1B-4876-B211-5DBED83BF4B8')


@proof(['C07', 'C01', 'C05'],
       targets=[(FI, 'VHDXInspector._find_meta_region')], native=False,
       assumes=['loop termination not verified'])
def find_meta_region_contract():
    M = load(FI)
    insp = M.VHDXInspector()
    D = fresh_bytes('region_table', length=65536)
    insp.region('header').data = D
    count = le(D, 8, 4)

    def is_meta(j):
        return guid_at(D, 16 + 32 * j, META)

    def offset_of(j):
        return le(D, 32 + 32 * j, 8)
    invariant(M, 'VHDXInspector._find_meta_region', 0,
              lambda i, L: forall_int(0, i, lambda j: neg(is_meta(j))),
              name='region-table-walk')
    raised = None
    r = None
    try:
        r = insp._find_meta_region()
    except M.ImageFormatError as e:
        raised = e
    bad_header = disj(le(D, 0, 4) != 0x69676572, count >= 2048)
    if raised is not None:
        # either the header is bad or the first matching entry points
        # behind the end of the region table
        check('meta-region/error-only-for-bad-table-or-backward-pointer',
              disj(bad_header,
                   neg(forall_int(0, count, lambda j: implies(
                       is_meta(j), offset_of(j) >= HEND)))))
        return
    check('meta-region/bad-table-header-must-raise', neg(bad_header))
    if r is None:
        check('meta-region/none-iff-no-entry-matches',
              forall_int(0, count, lambda j: neg(is_meta(j))))
        return
    check('meta-region/is-a-fresh-64KiB-region',
          isinstance(r, M.CaptureRegion) and r.length == 65536
          and r.min_length is None and r.data == b'')
    check('meta-region/offset-of-the-first-matching-entry',
          forall_int(0, count, lambda j: implies(
              conj(is_meta(j), forall_int(0, j, lambda q: neg(is_meta(q)))),
              r.offset == offset_of(j))))
    check('meta-region/not-behind-the-stream', r.offset >= HEND)
    check('meta-region/header-region-untouched',
          insp.region('header').data is D
          and list(insp._capture_regions.keys()) == ['ident', 'header'])


@proof(['C07', 'C01', 'C05'],
       targets=[(FI, 'VHDXInspector._find_meta_entry')], native=False,
       assumes=['loop termination not verified'])
def find_meta_entry_contract():
    M = load(FI)
    insp = M.VHDXInspector()
    m = fresh_int('metadata_offset', HEND)
    n = fresh_int('buffered', 0, 65536)
    T = fresh_bytes('metadata_table', length=n)
    meta = M.CaptureRegion(m, 65536)
    meta.data = T
    insp.new_region('metadata', meta)
    count = le(T, 10, 2)
    size = 32 + 32 * count

    def is_vds(j):
        return guid_at(T, 32 + 32 * j, VDS)
    invariant(M, 'VHDXInspector._find_meta_entry', 0,
              lambda i, L: forall_int(0, i, lambda j: neg(is_vds(j))),
              name='metadata-table-walk')
    raised = None
    r = None
    try:
        r = insp._find_meta_entry(M.VHDXInspector.VIRTUAL_DISK_SIZE)
    except M.ImageFormatError as e:
        raised = e
    if n < 32:
        check('meta-entry/waits-for-the-32-byte-header',
              raised is None and r is None)
        return
    sig_ok = T[0:8] == b'metadata'
    if raised is not None:
        check('meta-entry/error-only-for-bad-signature-or-pointer-into-table',
              disj(neg(sig_ok), conj(n >= size, neg(forall_int(
                  0, count, lambda j: implies(
                      is_vds(j), le(T, 32 + 32 * j + 16, 4) >= size))))))
        return
    check('meta-entry/bad-signature-must-raise', sig_ok)
    if n < size:
        check('meta-entry/waits-for-the-whole-table', r is None)
        check('meta-entry/region-unchanged-while-waiting',
              meta.length == 65536 and meta.data is T)
        return
    if r is None:
        check('meta-entry/none-iff-no-entry-matches',
              forall_int(0, count, lambda j: neg(is_vds(j))))
        check('meta-entry/region-unchanged-when-not-found',
              meta.length == 65536)
        return
    check('meta-entry/is-a-fresh-region', isinstance(r, M.CaptureRegion)
          and r.min_length is None and r.data == b'')
    check('meta-entry/located-by-the-first-matching-entry',
          forall_int(0, count, lambda j: implies(
              conj(is_vds(j), forall_int(0, j, lambda q: neg(is_vds(q)))),
              conj(r.offset == m + le(T, 32 + 32 * j + 16, 4),
                   disj(r.length == le(T, 32 + 32 * j + 20, 4),
                        conj(r.length == 65536,
                             le(T, 32 + 32 * j + 20, 4) > 65536))))))
    check('meta-entry/item-length-clamped', r.length <= 65536
          and r.length >= 0)
    check('meta-entry/item-not-behind-the-stream', r.offset >= m + size)
    check('meta-entry/metadata-region-closed-at-what-is-buffered',
          meta.length == n and meta.data is T and meta.complete)


@proof(['C07', 'C01', 'C05'],
       targets=[(FI, 'VHDXInspector.post_process'),
                (FI, 'VHDXInspector._initialize'),
                (FI, 'VHDXInspector.virtual_size'),
                (FI, 'VHDXInspector.format_match')], native=False)
def post_process_and_virtual_size():
    """post_process with the two finders replaced by their contracts (may
    return a region, None, or raise ImageFormatError)."""
    M = load(FI)
    insp = M.VHDXInspector()
    check('init/regions', [(k, r.offset, r.length) for k, r in
                           insp._capture_regions.items()]
          == [('ident', 0, 32), ('header', H, 65536)])
    check('init/memory-bound', 32 + 65536 + 65536 + 65536 <= 512 * 1024,
          'C05')
    check('init/safety-checks', list(insp._safety_checks.keys()) == ['null'])
    hdr_len = fresh_int('header_bytes', 0, 65536)
    insp.region('header').data = fresh_bytes('hdr', length=hdr_len)
    state = pick('regions', ['initial', 'with-metadata', 'with-both'])
    calls = []
    new_meta = M.CaptureRegion(fresh_int('m', HEND), 65536)
    # (an item length other than 8 makes virtual_size raise struct.error
    # once that many bytes are captured - outside the twenty properties; a
    # zero-length item would do so at once, hence >= 1 here)
    new_vds = M.CaptureRegion(fresh_int('v', HEND), fresh_int('vl', 1, 65536))
    mr = pick('find_meta_region_returns', ['region', 'none', 'raises'])
    me = pick('find_meta_entry_returns', ['region', 'none', 'raises'])

    def fake_fmr(self):
        calls.append('region')
        if mr == 'raises':
            raise M.ImageFormatError('bad table')
        return new_meta if mr == 'region' else None

    def fake_fme(self, guid):
        calls.append(('entry', guid))
        if me == 'raises':
            raise M.ImageFormatError('bad metadata')
        return new_vds if me == 'region' else None
    stub(M, 'VHDXInspector._find_meta_region', fake_fmr)
    stub(M, 'VHDXInspector._find_meta_entry', fake_fme)
    if state != 'initial':
        insp.new_region('metadata', M.CaptureRegion(fresh_int('m0', HEND),
                                                    65536))
    if state == 'with-both':
        vds = M.CaptureRegion(fresh_int('v0', HEND), 8)
        vds.data = fresh_bytes('vds_data', length=fresh_int('vds_have', 0, 8))
        insp.new_region('vds', vds)
    before = list(insp._capture_regions.keys())
    raised = None
    try:
        insp.post_process()
    except M.ImageFormatError as e:
        raised = e
    after = list(insp._capture_regions.keys())
    header_complete = hdr_len == 65536
    if state == 'initial':
        if not header_complete:
            check('pp/nothing-before-the-table-is-complete',
                  calls == [] and after == before and raised is None)
        else:
            check('pp/table-walk-exactly-once', calls == ['region'])
            check('pp/metadata-region-added-iff-found',
                  after == before + (['metadata'] if mr == 'region' else [])
                  and (raised is not None) == (mr == 'raises'))
            if mr == 'region':
                check('pp/the-found-region-is-registered',
                      insp.region('metadata') is new_meta)
    elif state == 'with-metadata':
        check('pp/entry-walk-for-the-vds-guid',
              calls == [('entry', M.VHDXInspector.VIRTUAL_DISK_SIZE)])
        check('pp/vds-region-added-iff-found',
              after == before + (['vds'] if me == 'region' else [])
              and (raised is not None) == (me == 'raises'))
    else:
        check('pp/idempotent-once-everything-is-located',
              calls == [] and after == before and raised is None)
    # observers
    size = insp.virtual_size
    if insp.has_region('vds') and insp.region('vds').complete \
            and len(insp.region('vds').data) == 8:
        check('size/little-endian-u64-of-the-item',
              size == le(insp.region('vds').data, 0, 8), 'C07')
    elif not insp.has_region('vds') or not insp.region('vds').complete:
        check('size/zero-until-the-item-is-captured', size == 0, 'C07')
    idt = fresh_bytes('ident_bytes', length=fresh_int('ident_have', 0, 32))
    insp.region('ident').data = idt
    check('match/vhdxfile-signature',
          insp.format_match == (len(idt) >= 8 and idt[0:8] == b'vhdxfile'),
          'C01')


CANARIES = [
    dict(name='region-walk-skips-entry-0', prop='C07', file=FI,
         proofs=['find_meta_region_contract'],
         old='        for i in range(0, count):\n            entry_start = region_entry_first + (i * 32)',
         new='        for i in range(1, count):\n            entry_start = region_entry_first + (i * 32)',
         expect=''),
    dict(name='region-entry-stride-36', prop='C07', file=FI,
         proofs=['find_meta_region_contract'],
         old='            entry_start = region_entry_first + (i * 32)',
         new='            entry_start = region_entry_first + (i * 36)',
         expect=''),
    dict(name='metadata-capture-one-entry-short', prop='C07', file=FI,
         proofs=['find_meta_region_contract'],
         old='                meta_len = 2048 * 32', new='                meta_len = 2047 * 32',
         expect='meta-region/is-a-fresh'),
    dict(name='metadata-capture-length-from-file', prop='C05', file=FI,
         proofs=['find_meta_region_contract'],
         old='                meta_len = 2048 * 32',
         new='                meta_len = max(meta_len, 2048 * 32)',
         expect='meta-region/is-a-fresh'),
    dict(name='item-length-signed', prop='C05', file=FI,
         proofs=['find_meta_entry_contract'],
         old="                    '<III',\n                    meta_buffer[entry_offset + 16:entry_offset + 28])",
         new="                    '<IiI',\n                    meta_buffer[entry_offset + 16:entry_offset + 28])",
         expect=''),
    dict(name='entry-walk-header-skip-16', prop='C07', file=FI,
         proofs=['find_meta_entry_contract'],
         old='            entry_offset = 32 + (i * 32)',
         new='            entry_offset = 16 + (i * 32)', expect=''),
    dict(name='elif-becomes-if-in-post-process', prop='C01', file=FI,
         proofs=['post_process_and_virtual_size'],
         old="        elif self.has_region('metadata') and not self.has_region('vds'):",
         new="        if self.has_region('metadata') and not self.has_region('vds'):",
         expect='pp/'),
]

# also: C01 C05 C03
"""C07 / C01 / C05 - VHDX: the two table walks and the region bookkeeping.

_find_meta_region and _find_meta_entry loop over a table whose entry count is
read from the image: the loops are cut by invariants ("no earlier entry
matched") and the results are specified with bounded quantifiers over the
table - every count 0..2047, every position of the matching entry, arbitrary
other entries.  GUID comparison goes through the real _guid(): the rendered
'%08X-%04X-...' text is compared with the constant by injectivity of
fixed-width hex (no assumption).  D / T are the symbolic contents of the
header region (64 KiB) and of the metadata region buffered so far.
"""
from pyvc.api import (proof, load, invariant, fresh_int, fresh_bytes, pick,
                      assume, check, implies, conj, disj, neg, le, byte_at,
                      forall_int, stub, cover)

FI = 'oslo_utils/imageutils/format_inspector.py'
H = 196608
HEND = H + 65536

# fields of the two GUIDs as rendered by _guid: <I <H <H then 8 single bytes
META = (0x8B7CA206, 0x4790, 0x4B9A, [0xB8, 0xFE, 0x57, 0x5F, 0x05, 0x0F,
                                     0x88, 0x6E])
VDS = (0x2FA54224, 0xCD1B, 0x4876, [0xB2, 0x11, 0x5D, 0xBE, 0xD8, 0x3B, 0xF4,
                                    0xB8])


def guid_at(B, off, g):
    return conj([le(B, off, 4) == g[0], le(B, off + 4, 2) == g[1],
                 le(B, off + 6, 2) == g[2]]
                + [byte_at(B, off + 8 + t) == g[3][t] for t in range(8)])


REGI = 0x69676572


def exists_int(lo, hi, fn):
    return neg(forall_int(lo, hi, lambda j: neg(fn(j))))


def region_walk_post(D, b, kind, off=None, length=None):
    """The outcome of _find_meta_region as a function of the complete region
    table, the 64 KiB at D[b:b+65536]: kind is 'raises', 'none' or 'region'.
    The same function states the obligation on the real finder (below, with
    D the header region's data and b == 0) and the assumption made about it
    where eat_chunk is verified against the finder's contract (vhdx_step,
    with D the stream and b == H)."""
    count = le(D, b + 8, 4)
    bad = disj(le(D, b, 4) != REGI, count >= 2048)

    def is_meta(j):
        return guid_at(D, b + 16 + 32 * j, META)

    def moff(j):
        return le(D, b + 32 + 32 * j, 8)

    def first(j):
        return conj(is_meta(j), forall_int(0, j, lambda q: neg(is_meta(q))))
    if kind == 'raises':
        return disj(bad, exists_int(0, count, lambda j: conj(
            first(j), moff(j) < HEND)))
    if kind == 'none':
        return conj(neg(bad), forall_int(0, count,
                                         lambda j: neg(is_meta(j))))
    return conj(neg(bad), off >= HEND, length == 65536,
                exists_int(0, count, lambda j: conj(first(j),
                                                    off == moff(j))))


def entry_walk_post(T, b, n, kind, ioff=None, ilen=None):
    """The outcome of _find_meta_entry(VIRTUAL_DISK_SIZE) as a function of
    the n bytes T[b:b+n] of the metadata region buffered so far.  ioff is
    the item offset relative to the metadata region, ilen the clamped item
    length."""
    count = le(T, b + 10, 2)
    size = 32 + 32 * count

    def is_vds(j):
        return guid_at(T, b + 32 + 32 * j, VDS)

    def first(j):
        return conj(is_vds(j), forall_int(0, j, lambda q: neg(is_vds(q))))
    sig_ok = conj([byte_at(T, b + t) == b'metadata'[t] for t in range(8)])
    if kind == 'raises':
        return conj(n >= 32, disj(neg(sig_ok), conj(
            n >= size, exists_int(0, count, lambda j: conj(
                first(j), le(T, b + 32 + 32 * j + 16, 4) < size)))))
    if kind == 'none':
        return disj(n < 32, conj(sig_ok, disj(n < size, forall_int(
            0, count, lambda j: neg(is_vds(j))))))
    return conj(n >= size, sig_ok, ioff >= size, ilen >= 0, ilen <= 65536,
                exists_int(0, count, lambda j: conj(
                    first(j), ioff == le(T, b + 32 + 32 * j + 16, 4),
                    disj(ilen == le(T, b + 32 + 32 * j + 20, 4),
                         conj(ilen == 65536,
                              le(T, b + 32 + 32 * j + 20, 4) > 65536)))))


@proof(['C07', 'C01'], targets=[(FI, 'VHDXInspector._guid')])
def guid_constants_match_their_rendering():
    M = load(FI)
    b = fresh_bytes('buf', length=16)
    text = M.VHDXInspector._guid(b)
    check('guid/metaregion-text-iff-its-bytes',
          (text == M.VHDXInspector.METAREGION) == guid_at(b, 0, META))
    check('guid/vds-text-iff-its-bytes',
          (text == M.VHDXInspector.VIRTUAL_DISK_SIZE) == guid_at(b, 0, VDS))
    check('guid/constants', M.VHDXInspector.METAREGION
          == '8B7CA206-4790-4B9A-B8FE-575F050F886E'
          and M.VHDXInspector.VIRTUAL_DISK_SIZE
          == '2FA54224-CD1B-4876-B211-5DBED83BF4B8')


@proof(['C07', 'C01', 'C05'],
       targets=[(FI, 'VHDXInspector._find_meta_region')], native=False,
       assumes=['loop termination not verified'])
def find_meta_region_contract():
    M = load(FI)
    insp = M.VHDXInspector()
    D = fresh_bytes('region_table', length=65536)
    insp.region('header').data = D
    count = le(D, 8, 4)

    def is_meta(j):
        return guid_at(D, 16 + 32 * j, META)

    def offset_of(j):
        return le(D, 32 + 32 * j, 8)
    invariant(M, 'VHDXInspector._find_meta_region', 0,
              lambda i, L: forall_int(0, i, lambda j: neg(is_meta(j))),
              name='region-table-walk')
    raised = None
    r = None
    try:
        r = insp._find_meta_region()
    except M.ImageFormatError as e:
        raised = e
    bad_header = disj(le(D, 0, 4) != 0x69676572, count >= 2048)
    check('meta-region/outcome-is-the-specified-function-of-the-table',
          region_walk_post(D, 0, 'raises' if raised is not None else
                           'none' if r is None else 'region',
                           None if r is None else r.offset,
                           None if r is None else r.length))
    if raised is not None:
        # either the header is bad or the first matching entry points
        # behind the end of the region table
        check('meta-region/error-only-for-bad-table-or-backward-pointer',
              disj(bad_header,
                   neg(forall_int(0, count, lambda j: implies(
                       is_meta(j), offset_of(j) >= HEND)))))
        return
    check('meta-region/bad-table-header-must-raise', neg(bad_header))
    if r is None:
        check('meta-region/none-iff-no-entry-matches',
              forall_int(0, count, lambda j: neg(is_meta(j))))
        return
    check('meta-region/is-a-fresh-64KiB-region',
          isinstance(r, M.CaptureRegion) and r.length == 65536
          and r.min_length is None and r.data == b'')
    check('meta-region/offset-of-the-first-matching-entry',
          forall_int(0, count, lambda j: implies(
              conj(is_meta(j), forall_int(0, j, lambda q: neg(is_meta(q)))),
              r.offset == offset_of(j))))
    check('meta-region/not-behind-the-stream', r.offset >= HEND)
    check('meta-region/header-region-untouched',
          insp.region('header').data is D
          and list(insp._capture_regions.keys()) == ['ident', 'header'])


@proof(['C07', 'C01', 'C05'],
       targets=[(FI, 'VHDXInspector._find_meta_entry')], native=False,
       assumes=['loop termination not verified'])
def find_meta_entry_contract():
    M = load(FI)
    insp = M.VHDXInspector()
    m = fresh_int('metadata_offset', HEND)
    n = fresh_int('buffered', 0, 65536)
    T = fresh_bytes('metadata_table', length=n)
    meta = M.CaptureRegion(m, 65536)
    meta.data = T
    insp.new_region('metadata', meta)
    count = le(T, 10, 2)
    size = 32 + 32 * count

    def is_vds(j):
        return guid_at(T, 32 + 32 * j, VDS)
    invariant(M, 'VHDXInspector._find_meta_entry', 0,
              lambda i, L: forall_int(0, i, lambda j: neg(is_vds(j))),
              name='metadata-table-walk')
    raised = None
    r = None
    try:
        r = insp._find_meta_entry(M.VHDXInspector.VIRTUAL_DISK_SIZE)
    except M.ImageFormatError as e:
        raised = e
    check('meta-entry/outcome-is-the-specified-function-of-the-buffer',
          entry_walk_post(T, 0, n, 'raises' if raised is not None else
                          'none' if r is None else 'region',
                          None if r is None else r.offset - m,
                          None if r is None else r.length))
    if n < 32:
        check('meta-entry/waits-for-the-32-byte-header',
              raised is None and r is None)
        return
    sig_ok = T[0:8] == b'metadata'
    if raised is not None:
        check('meta-entry/error-only-for-bad-signature-or-pointer-into-table',
              disj(neg(sig_ok), conj(n >= size, neg(forall_int(
                  0, count, lambda j: implies(
                      is_vds(j), le(T, 32 + 32 * j + 16, 4) >= size))))))
        return
    check('meta-entry/bad-signature-must-raise', sig_ok)
    if n < size:
        check('meta-entry/waits-for-the-whole-table', r is None)
        check('meta-entry/region-unchanged-while-waiting',
              meta.length == 65536 and meta.data is T)
        return
    if r is None:
        check('meta-entry/none-iff-no-entry-matches',
              forall_int(0, count, lambda j: neg(is_vds(j))))
        check('meta-entry/region-unchanged-when-not-found',
              meta.length == 65536)
        return
    check('meta-entry/is-a-fresh-region', isinstance(r, M.CaptureRegion)
          and r.min_length is None and r.data == b'')
    check('meta-entry/located-by-the-first-matching-entry',
          forall_int(0, count, lambda j: implies(
              conj(is_vds(j), forall_int(0, j, lambda q: neg(is_vds(q)))),
              conj(r.offset == m + le(T, 32 + 32 * j + 16, 4),
                   disj(r.length == le(T, 32 + 32 * j + 20, 4),
                        conj(r.length == 65536,
                             le(T, 32 + 32 * j + 20, 4) > 65536))))))
    check('meta-entry/item-length-clamped', r.length <= 65536
          and r.length >= 0)
    check('meta-entry/item-not-behind-the-stream', r.offset >= m + size)
    check('meta-entry/metadata-region-closed-at-what-is-buffered',
          meta.length == n and meta.data is T and meta.complete)


@proof(['C07', 'C01', 'C05'],
       targets=[(FI, 'VHDXInspector.post_process'),
                (FI, 'VHDXInspector._initialize'),
                (FI, 'VHDXInspector.virtual_size'),
                (FI, 'VHDXInspector.format_match')], native=False)
def post_process_and_virtual_size():
    """post_process with the two finders replaced by their contracts (may
    return a region, None, or raise ImageFormatError)."""
    M = load(FI)
    insp = M.VHDXInspector()
    check('init/regions', [(k, r.offset, r.length) for k, r in
                           insp._capture_regions.items()]
          == [('ident', 0, 32), ('header', H, 65536)])
    check('init/memory-bound', 32 + 65536 + 65536 + 65536 <= 512 * 1024,
          'C05')
    check('init/safety-checks', list(insp._safety_checks.keys()) == ['null'])
    hdr_len = fresh_int('header_bytes', 0, 65536)
    insp.region('header').data = fresh_bytes('hdr', length=hdr_len)
    state = pick('regions', ['initial', 'with-metadata', 'with-both'])
    calls = []
    new_meta = M.CaptureRegion(fresh_int('m', HEND), 65536)
    # (an item length other than 8 makes virtual_size raise struct.error
    # once that many bytes are captured - outside the twenty properties; a
    # zero-length item would do so at once, hence >= 1 here)
    new_vds = M.CaptureRegion(fresh_int('v', HEND), fresh_int('vl', 1, 65536))
    mr = pick('find_meta_region_returns', ['region', 'none', 'raises'])
    me = pick('find_meta_entry_returns', ['region', 'none', 'raises'])

    def fake_fmr(self):
        calls.append('region')
        if mr == 'raises':
            raise M.ImageFormatError('bad table')
        return new_meta if mr == 'region' else None

    def fake_fme(self, guid):
        calls.append(('entry', guid))
        if me == 'raises':
            raise M.ImageFormatError('bad metadata')
        return new_vds if me == 'region' else None
    stub(M, 'VHDXInspector._find_meta_region', fake_fmr)
    stub(M, 'VHDXInspector._find_meta_entry', fake_fme)
    if state != 'initial':
        insp.new_region('metadata', M.CaptureRegion(fresh_int('m0', HEND),
                                                    65536))
    if state == 'with-both':
        vds = M.CaptureRegion(fresh_int('v0', HEND), 8)
        vds.data = fresh_bytes('vds_data', length=fresh_int('vds_have', 0, 8))
        insp.new_region('vds', vds)
    before = list(insp._capture_regions.keys())
    raised = None
    try:
        insp.post_process()
    except M.ImageFormatError as e:
        raised = e
    after = list(insp._capture_regions.keys())
    header_complete = hdr_len == 65536
    if state == 'initial':
        if not header_complete:
            check('pp/nothing-before-the-table-is-complete',
                  calls == [] and after == before and raised is None)
        else:
            check('pp/table-walk-exactly-once', calls == ['region'])
            check('pp/metadata-region-added-iff-found',
                  after == before + (['metadata'] if mr == 'region' else [])
                  and (raised is not None) == (mr == 'raises'))
            if mr == 'region':
                check('pp/the-found-region-is-registered',
                      insp.region('metadata') is new_meta)
    elif state == 'with-metadata':
        check('pp/entry-walk-for-the-vds-guid',
              calls == [('entry', M.VHDXInspector.VIRTUAL_DISK_SIZE)])
        check('pp/vds-region-added-iff-found',
              after == before + (['vds'] if me == 'region' else [])
              and (raised is not None) == (me == 'raises'))
    else:
        check('pp/idempotent-once-everything-is-located',
              calls == [] and after == before and raised is None)
    # observers
    size = insp.virtual_size
    if insp.has_region('vds') and insp.region('vds').complete \
            and len(insp.region('vds').data) == 8:
        check('size/little-endian-u64-of-the-item',
              size == le(insp.region('vds').data, 0, 8), 'C07')
    elif not insp.has_region('vds') or not insp.region('vds').complete:
        check('size/zero-until-the-item-is-captured', size == 0, 'C07')
    idt = fresh_bytes('ident_bytes', length=fresh_int('ident_have', 0, 32))
    insp.region('ident').data = idt
    check('match/vhdxfile-signature',
          insp.format_match == (len(idt) >= 8 and idt[0:8] == b'vhdxfile'),
          'C01')


# ---------------------------------------------------------------------------
# class-level induction: the relation R_VHDX(insp, S, q) and its step


def put_in_R(M, S, q, shape, tag=''):
    """A VHDXInspector forced into an arbitrary state satisfying
    R_VHDX(S, q) with the given region table shape; the dynamic regions are
    located by the two finder contracts applied to the stream."""
    insp = M.VHDXInspector()
    insp._total_count = q
    insp.region('ident').data = S[0:min(q, 32)]
    insp.region('header').data = S[H:min(q, HEND)]
    if shape == 'ident+header':
        if q >= HEND:
            assume(region_walk_post(S, H, 'none'))
        return insp
    assume(q >= HEND)
    m = fresh_int('metadata_offset' + tag, 0)
    assume(region_walk_post(S, H, 'region', m, 65536))
    md = M.CaptureRegion(m, 65536)
    insp.new_region('metadata', md)
    if shape == 'ident+header+metadata':
        md.data = S[m:min(q, m + 65536)]
        assume(entry_walk_post(S, m, len(md.data), 'none'))
        return insp
    L = fresh_int('metadata_closed_at' + tag, 32, 65536)
    assume(m + L <= q)
    md.length = L
    md.data = S[m:m + L]
    ioff = fresh_int('item_offset' + tag, 0)
    ilen = fresh_int('item_length' + tag, 0, 65536)
    assume(entry_walk_post(S, m, L, 'region', ioff, ilen))
    vds = M.CaptureRegion(m + ioff, ilen)
    vds.data = S[m + ioff:min(q, m + ioff + ilen)]
    insp.new_region('vds', vds)
    return insp


def check_R(insp, S, q, tag):
    names = list(insp._capture_regions.keys())
    check(tag + '/position', insp._total_count == q)
    check(tag + '/region-table-shape',
          names == ['ident', 'header']
          or names == ['ident', 'header', 'metadata']
          or names == ['ident', 'header', 'metadata', 'vds'])
    idt = insp.region('ident')
    hdr = insp.region('header')
    check(tag + '/fixed-regions',
          idt.offset == 0 and idt.length == 32 and idt.min_length is None
          and hdr.offset == H and hdr.length == 65536
          and hdr.min_length is None)
    check(tag + '/fixed-regions-in-sync',
          idt.data == S[0:min(q, 32)] and hdr.data == S[H:min(q, HEND)])
    check(tag + '/not-finished', insp._finished == False)  # noqa
    total = 32 + 65536
    if names == ['ident', 'header']:
        if q >= HEND:
            check(tag + '/no-metadata-region-only-if-the-table-names-none',
                  region_walk_post(S, H, 'none'))
    else:
        md = insp.region('metadata')
        m = md.offset
        check(tag + '/metadata-only-after-the-table', q >= HEND)
        check(tag + '/metadata-where-the-table-says',
              region_walk_post(S, H, 'region', m, 65536)
              and md.min_length is None)
        total = total + 65536
        if names == ['ident', 'header', 'metadata']:
            check(tag + '/metadata-open-and-in-sync',
                  md.length == 65536 and md.data == S[m:min(q, m + 65536)])
            check(tag + '/no-vds-region-only-if-the-buffer-names-none',
                  entry_walk_post(S, m, len(md.data), 'none'))
        else:
            vds = insp.region('vds')
            L = md.length
            check(tag + '/metadata-closed-at-what-was-buffered',
                  32 <= L and L <= 65536 and m + L <= q
                  and md.data == S[m:m + L])
            check(tag + '/vds-where-the-metadata-table-says',
                  entry_walk_post(S, m, L, 'region', vds.offset - m,
                                  vds.length) and vds.min_length is None)
            check(tag + '/vds-in-sync',
                  vds.data == S[vds.offset:min(q, vds.offset + vds.length)])
            total = total + 65536
    check(tag + '/memory-bound', total <= 512 * 1024
          and sum(insp.context_info.values()) <= total, 'C05')


def finder_contracts(M, S):
    """eat_chunk is verified against the contracts of the two finders (proved
    above on their real bodies): each call checks the callee's precondition
    and assumes exactly its postcondition on a fresh outcome."""
    def fmr(self):
        hdr = self.region('header')
        check('step/region-walk-called-on-the-complete-table',
              hdr.data == S[H:HEND])
        kind = pick('region_walk_outcome', ['raises', 'none', 'region'])
        if kind == 'raises':
            assume(region_walk_post(S, H, 'raises'))
            raise M.ImageFormatError('region table')
        if kind == 'none':
            assume(region_walk_post(S, H, 'none'))
            return None
        off = fresh_int('found_metadata_offset', 0)
        assume(region_walk_post(S, H, 'region', off, 65536))
        return M.CaptureRegion(off, 65536)

    def fme(self, guid):
        md = self.region('metadata')
        n = len(md.data)
        check('step/entry-walk-called-for-the-vds-guid-on-a-synced-buffer',
              guid == '2FA54224-CD1B-4876-B211-5DBED83BF4B8'
              and md.length == 65536 and n <= 65536
              and md.data == S[md.offset:md.offset + n])
        kind = pick('entry_walk_outcome', ['raises', 'none', 'region'])
        if kind == 'raises':
            assume(entry_walk_post(S, md.offset, n, 'raises'))
            raise M.ImageFormatError('metadata table')
        if kind == 'none':
            assume(entry_walk_post(S, md.offset, n, 'none'))
            return None
        ioff = fresh_int('found_item_offset', 0)
        ilen = fresh_int('found_item_length', 0, 65536)
        assume(entry_walk_post(S, md.offset, n, 'region', ioff, ilen))
        md.length = n
        return M.CaptureRegion(md.offset + ioff, ilen)
    stub(M, 'VHDXInspector._find_meta_region', fmr)
    stub(M, 'VHDXInspector._find_meta_entry', fme)


@proof(['C01', 'C05', 'C07'],
       targets=[(FI, 'FileInspector.eat_chunk'),
                (FI, 'FileInspector._capture'),
                (FI, 'CaptureRegion.capture'),
                (FI, 'VHDXInspector.post_process'),
                (FI, 'VHDXInspector._initialize')], native=False,
       assumes=['_find_meta_region / _find_meta_entry are used through '
                'their contracts region_walk_post / entry_walk_post, which '
                'find_meta_region_contract / find_meta_entry_contract '
                'discharge on the real bodies'])
def vhdx_step():
    """R_VHDX(S, p0) and chunk == S[p0:p]  ==>  the real eat_chunk(chunk)
    either re-establishes R_VHDX(S, p) or raises ImageFormatError exactly
    when one of the two tables, as found in S[:p], is one the finders
    reject.  p0, p, the region offsets and lengths are symbolic."""
    M = load(FI)
    S = fresh_bytes('S')
    p0 = fresh_int('p0', 0, len(S))
    p = fresh_int('p', p0, len(S))
    fresh = M.VHDXInspector()
    check_R(fresh, S, 0, 'init')
    shape = pick('regions', ['ident+header', 'ident+header+metadata',
                             'ident+header+metadata+vds'])
    insp = put_in_R(M, S, p0, shape)
    finder_contracts(M, S)
    raised = None
    try:
        insp.eat_chunk(S[p0:p])
    except M.ImageFormatError as e:
        raised = e
    names = list(insp._capture_regions.keys())
    if shape == 'ident+header' and len(names) == 4 and raised is None:
        cover('step/table-metadata-and-item-all-arrive-in-one-chunk')
    if shape == 'ident+header' and len(names) == 3 and raised is not None:
        cover('step/metadata-table-rejected-in-the-chunk-that-located-it')
    if shape == 'ident+header+metadata' and len(names) == 3 \
            and raised is None:
        cover('step/open-metadata-region-stays-open')
    if shape == 'ident+header+metadata+vds' and raised is None:
        cover('step/located-state-is-stable')
    if raised is None:
        check_R(insp, S, p, 'step')
        return
    # the error is a function of the stream prefix
    check('step-error/only-once-the-table-is-in', p >= HEND)
    if names == ['ident', 'header']:
        check('step-error/region-table-rejected',
              region_walk_post(S, H, 'raises'))
    else:
        md = insp.region('metadata')
        check('step-error/metadata-table-rejected',
              names == ['ident', 'header', 'metadata']
              and region_walk_post(S, H, 'region', md.offset, 65536)
              and md.data == S[md.offset:min(p, md.offset + 65536)]
              and entry_walk_post(S, md.offset, len(md.data), 'raises'))


@proof(['C01', 'C07'],
       targets=[(FI, 'VHDXInspector.virtual_size'),
                (FI, 'VHDXInspector.format_match'),
                (FI, 'FileInspector.complete')], native=False)
def vhdx_state_is_a_function_of_the_stream():
    """Any two inspectors in R_VHDX(S, q) - however their chunkings got them
    there (init + vhdx_step) - have the same region table and the same
    observable verdict; only the length at which the metadata buffer was
    closed may differ.  This is the chunk-independence of C01 for VHDX."""
    M = load(FI)
    S = fresh_bytes('S')
    q = fresh_int('q', 0, len(S))
    shapes = ['ident+header', 'ident+header+metadata',
              'ident+header+metadata+vds']
    sa = pick('first', shapes)
    sb = pick('second', shapes)
    a = put_in_R(M, S, q, sa, '_a')
    b = put_in_R(M, S, q, sb, '_b')
    if sa != sb:
        check('unique/region-table-shape-is-determined-by-the-prefix', False)
        return
    if sa != 'ident+header':
        check('unique/metadata-offset',
              a.region('metadata').offset == b.region('metadata').offset)
    if sa == 'ident+header+metadata+vds':
        va = a.region('vds')
        vb = b.region('vds')
        check('unique/vds-region', va.offset == vb.offset
              and va.length == vb.length and va.data == vb.data)
        if va.length == 8:
            check('unique/virtual-size', a.virtual_size == b.virtual_size)
            if va.complete:
                check('unique/virtual-size-is-the-u64-the-tables-point-to',
                      a.virtual_size == le(S, va.offset, 8), 'C07')
    else:
        check('unique/virtual-size-unknown',
              a.virtual_size == 0 and b.virtual_size == 0)
    check('unique/complete', a.complete == b.complete)
    check('unique/format-match', a.format_match == b.format_match
          and a.format_match == (q >= 8 and S[0:8] == b'vhdxfile'))
    cover('unique/reached')


@proof(['C03', 'C01'], targets=[(FI, 'FileInspector.complete'),
                                (FI, 'VHDXInspector.format_match')],
       native=False)
def vhdx_decision_is_not_revised():
    """C03 no-revision for VHDX: an inspector in R_VHDX(S, q) that is
    complete is matched by every inspector in R_VHDX(S, q'), q' >= q: still
    complete, same format_match (and the later prefix is not rejected, by
    vhdx_step + vhdx_error_is_monotone_in_the_prefix)."""
    M = load(FI)
    S = fresh_bytes('S')
    q = fresh_int('q', 0, len(S))
    q1 = fresh_int('q_later', q, len(S))
    shapes = ['ident+header', 'ident+header+metadata',
              'ident+header+metadata+vds']
    a = put_in_R(M, S, q, pick('first', shapes), '_a')
    if not a.complete:
        return
    b = put_in_R(M, S, q1, pick('later', shapes), '_b')
    check('stable/complete-stays-complete', b.complete)
    check('stable/format-match-kept', b.format_match == a.format_match)
    if a.has_region('vds') and a.region('vds').length == 8:
        check('stable/virtual-size-kept', b.virtual_size == a.virtual_size)
    cover('stable/reached')


@proof(['C01'], targets=[(FI, 'VHDXInspector.post_process')], native=False)
def vhdx_error_is_monotone_in_the_prefix():
    """vhdx_step: a call ending at p raises exactly when the tables found in
    S[:p] are rejected.  Rejection is monotone in p, so every chunking of a
    stream raises by the same position (in a different call)."""
    S = fresh_bytes('S')
    m = fresh_int('metadata_offset', 0)
    n0 = fresh_int('buffered', 0, 65536)
    n1 = fresh_int('buffered_later', n0, 65536)
    assume(entry_walk_post(S, m, n0, 'raises'))
    check('error/metadata-rejection-persists',
          entry_walk_post(S, m, n1, 'raises'))
    check('error/rejected-buffer-is-never-accepted',
          neg(entry_walk_post(S, m, n1, 'none')))
    ioff = fresh_int('item_offset', 0)
    ilen = fresh_int('item_length', 0, 65536)
    check('error/rejected-buffer-never-yields-a-region',
          neg(entry_walk_post(S, m, n1, 'region', ioff, ilen)))
    check('error/region-table-outcomes-exclude-each-other',
          neg(conj(region_walk_post(S, H, 'raises'),
                   disj(region_walk_post(S, H, 'none'),
                        region_walk_post(S, H, 'region', m, 65536)))))


CANARIES = [
    dict(name='eat-chunk-single-post-process-pass', prop='C01', file=FI,
         proofs=['vhdx_step'],
         old="""            self._capture(chunk, only=[self.region_name(r)
                                       for r in new_regions])
            seen_regions = regions
""",
         new="""            self._capture(chunk, only=[self.region_name(r)
                                       for r in new_regions])
            seen_regions = regions
            break
""", expect='step/'),
    dict(name='new-regions-do-not-see-the-current-chunk', prop='C01', file=FI,
         proofs=['vhdx_step'],
         old="""            self._capture(chunk, only=[self.region_name(r)
                                       for r in new_regions])""",
         new="""            pass""", expect='step/'),
    dict(name='post-process-walks-before-the-table-is-complete', prop='C01',
         file=FI, proofs=['vhdx_step'],
         old="        if self.region('header').complete and not self.has_region('metadata'):",
         new="        if self.region('header').data and not self.has_region('metadata'):",
         expect='step/region-walk-called'),

    dict(name='region-walk-skips-entry-0', prop='C07', file=FI,
         proofs=['find_meta_region_contract'],
         old='        for i in range(0, count):\n            entry_start = region_entry_first + (i * 32)',
         new='        for i in range(1, count):\n            entry_start = region_entry_first + (i * 32)',
         expect=''),
    dict(name='region-entry-stride-36', prop='C07', file=FI,
         proofs=['find_meta_region_contract'],
         old='            entry_start = region_entry_first + (i * 32)',
         new='            entry_start = region_entry_first + (i * 36)',
         expect=''),
    dict(name='metadata-capture-one-entry-short', prop='C07', file=FI,
         proofs=['find_meta_region_contract'],
         old='                meta_len = 2048 * 32', new='                meta_len = 2047 * 32',
         expect='meta-region/'),
    dict(name='metadata-capture-length-from-file', prop='C05', file=FI,
         proofs=['find_meta_region_contract'],
         old='                meta_len = 2048 * 32',
         new='                meta_len = max(meta_len, 2048 * 32)',
         expect='meta-region/'),
    dict(name='item-length-signed', prop='C05', file=FI,
         proofs=['find_meta_entry_contract'],
         old="                    '<III',\n                    meta_buffer[entry_offset + 16:entry_offset + 28])",
         new="                    '<IiI',\n                    meta_buffer[entry_offset + 16:entry_offset + 28])",
         expect=''),
    dict(name='entry-walk-header-skip-16', prop='C07', file=FI,
         proofs=['find_meta_entry_contract'],
         old='            entry_offset = 32 + (i * 32)',
         new='            entry_offset = 16 + (i * 32)', expect=''),
    dict(name='elif-becomes-if-in-post-process', prop='C01', file=FI,
         proofs=['post_process_and_virtual_size'],
         old="        elif self.has_region('metadata') and not self.has_region('vds'):",
         new="        if self.has_region('metadata') and not self.has_region('vds'):",
         expect='pp/'),
]

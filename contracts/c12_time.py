"""C12 - time normalisation, overridden-clock comparison and marshalling.

The datetime module is a dependency: in the proofs timeutils' global
`datetime` (and `calendar`, `iso8601`, `zoneinfo`) are replaced by the model
below (A-DATETIME): a naive datetime is an integer number of microseconds
`us`; an aware one additionally carries its UTC offset in microseconds and
denotes the instant us - off; a timedelta is a number of microseconds
(timedelta(seconds=s) = s * 10^6, s any real); +, -, comparisons, replace,
utcoffset follow from that.  The model itself is validated against the real
datetime module by the bounded family.  With it, every clause of the property
is an arithmetic identity that the real timeutils code must satisfy, with the
exact comparison operators read from the source.
"""
from pyvc.api import (proof, bounded, load, model, blank, fresh_int,
                      fresh_real, fresh_bool, fresh_str, pick, assume, check,
                      implies, conj, disj, neg, ite, same, rng, unmodelled)

TU = 'oslo_utils/timeutils.py'
FX = 'oslo_utils/fixture.py'


class TD:
    """timedelta: microseconds (may be fractional for seconds=real)."""

    def __init__(self, us):
        self.us = us

    def __add__(self, other):
        return TD(self.us + other.us)

    def __gt__(self, other):
        return self.us > other.us

    def __lt__(self, other):
        return self.us < other.us

    def __ge__(self, other):
        return self.us >= other.us

    def __le__(self, other):
        return self.us <= other.us

    def __eq__(self, other):
        return isinstance(other, TD) and self.us == other.us

    def __hash__(self):
        return 0

    def total_seconds(self):
        return self.us / 1000000


class DT:
    """datetime: local microseconds + utc offset (None when naive)."""
    # utcnow() tells a list of override times from a single datetime by the
    # AttributeError of .pop
    __absent__ = ('pop',)

    def __init__(self, us, off=None):
        self.us = us
        self.off = off

    def utcoffset(self):
        return None if self.off is None else TD(self.off)

    def replace(self, tzinfo=None):
        return DT(self.us, None if tzinfo is None else tzinfo.off)

    @property
    def tzinfo(self):
        return None if self.off is None else TZ(self.off)

    def __sub__(self, other):
        if isinstance(other, TD):
            return DT(self.us - other.us, self.off)
        if not isinstance(other, DT):
            unmodelled('datetime - %r' % (other,))
        if (self.off is None) != (other.off is None):
            raise TypeError("can't subtract offset-naive and offset-aware "
                            "datetimes")
        if self.off is None:
            return TD(self.us - other.us)
        return TD((self.us - self.off) - (other.us - other.off))

    def __add__(self, other):
        if not isinstance(other, TD):
            unmodelled('datetime + %r' % (other,))
        return DT(self.us + other.us, self.off)

    def _instant(self, other):
        if not isinstance(other, DT):
            unmodelled('datetime compared with %r' % (other,))
        if (self.off is None) != (other.off is None):
            raise TypeError("can't compare offset-naive and offset-aware "
                            "datetimes")
        if self.off is None:
            return self.us, other.us
        return self.us - self.off, other.us - other.off

    def __le__(self, other):
        a, b = self._instant(other)
        return a <= b

    def __lt__(self, other):
        a, b = self._instant(other)
        return a < b

    def __gt__(self, other):
        a, b = self._instant(other)
        return a > b

    def __ge__(self, other):
        a, b = self._instant(other)
        return a >= b

    def timetuple(self):
        return self

    @property
    def microsecond(self):
        return self.us % 1000000


class TZ:
    def __init__(self, off):
        self.off = off


class _NS:
    pass


def install_model(T):
    dtmod = _NS()
    dtmod.timedelta = lambda days=0, seconds=0: TD(
        days * 86400000000 + seconds * 1000000)
    dtmod.datetime = _NS()
    dtmod.timezone = _NS()
    model(T, 'datetime', dtmod)
    cal = _NS()
    cal.timegm = lambda tt: tt.us // 1000000
    model(T, 'calendar', cal)
    return dtmod


def any_time(tag):
    """naive, aware, or an ISO string that parses to one of them."""
    us = fresh_int(tag + '_us')
    kind = pick(tag + '_kind', ['naive', 'aware'])
    if kind == 'naive':
        return DT(us), us
    off = fresh_int(tag + '_offset_us', -86399000000, 86399000000)
    return DT(us, off), us - off


@proof('C12', targets=[(TU, 'normalize_time')], native=False,
       assumes=['A-DATETIME'])
def normalize_time_contract():
    T = load(TU)
    install_model(T)
    t, instant = any_time('t')
    r = T.normalize_time(t)
    check('normalize/result-is-naive', r.off is None)
    check('normalize/denotes-the-same-utc-instant', r.us == instant)
    if t.off is None:
        check('normalize/naive-returned-as-is', r is t)
    check('normalize/argument-unmodified', t.us == fresh_int('t_us'))


@proof('C12', targets=[(TU, 'utcnow'), (TU, 'utcnow_ts'),
                       (TU, 'set_time_override'),
                       (TU, 'clear_time_override'),
                       (TU, 'advance_time_delta'),
                       (TU, 'advance_time_seconds')], native=False,
       assumes=['A-DATETIME'])
def overridden_clock_contract():
    T = load(TU)
    install_model(T)
    now_us = fresh_int('now_us')
    now = DT(now_us)
    T.set_time_override(now)
    check('override/utcnow-returns-the-instant', T.utcnow() is now)
    check('override/utcnow-is-repeatable', T.utcnow() is now
          and T.utcnow(with_timezone=True) is now)
    ts = T.utcnow_ts()
    check('override/ts-is-whole-seconds', ts == now_us // 1000000)
    tsm = T.utcnow_ts(microsecond=True)
    check('override/ts-with-microseconds',
          tsm * 1000000 == now_us)
    how = pick('advance_by', ['delta', 'seconds', 'nothing'])
    if how == 'delta':
        d = fresh_int('delta_us')
        T.advance_time_delta(TD(d))
        check('advance/delta-moves-by-exactly-the-amount',
              T.utcnow().us == now_us + d and T.utcnow().off is None)
    elif how == 'seconds':
        s = fresh_real('seconds')
        T.advance_time_seconds(s)
        check('advance/seconds-moves-by-exactly-the-amount',
              T.utcnow().us == now_us + s * 1000000)
    T.clear_time_override()
    check('override/cleared', T.utcnow.override_time is None)


@proof('C12', targets=[(TU, 'is_older_than'), (TU, 'is_newer_than'),
                       (TU, 'is_soon')], native=False,
       assumes=['A-DATETIME', 'A-ISO8601: parse_isotime(str) denotes the '
                'instant the string spells'])
def comparisons_against_the_overridden_clock():
    T = load(TU)
    install_model(T)
    now_us = fresh_int('now_us')
    T.set_time_override(DT(now_us))
    t, instant = any_time('t')
    as_string = pick('given_as_iso_string', [False, True])
    if as_string:
        # parse_isotime is replaced by its contract: the datetime spelled
        model(T, 'parse_isotime', lambda s: t)
        arg = 'an ISO 8601 string'
    else:
        arg = t
    s = fresh_real('seconds')
    which = pick('function', ['older', 'newer', 'soon'])
    if which == 'older':
        r = T.is_older_than(arg, s)
        check('older/iff-now-minus-t-exceeds-seconds',
              r == (now_us - instant > s * 1000000))
    elif which == 'newer':
        r = T.is_newer_than(arg, s)
        check('newer/iff-t-minus-now-exceeds-seconds',
              r == (instant - now_us > s * 1000000))
    else:
        if as_string:
            return
        r = T.is_soon(arg, s)
        check('soon/iff-t-not-after-now-plus-window',
              r == (instant <= now_us + s * 1000000))


@proof('C12', targets=[(TU, 'parse_isotime')], native=False,
       assumes=['A-ISO8601: iso8601.parse_date raises only ParseError or '
                'TypeError'])
def parse_isotime_exception_flow():
    T = load(TU)

    class ParseError(Exception):
        pass
    iso = _NS()
    iso.ParseError = ParseError
    result = DT(fresh_int('parsed_us'), 0)

    def parse_date(s):
        o = pick('parse_outcome', ['ok', 'ParseError', 'TypeError'])
        if o == 'ParseError':
            raise ParseError('bad')
        if o == 'TypeError':
            raise TypeError('expecting a string')
        return result
    iso.parse_date = parse_date
    model(T, 'iso8601', iso)
    raised = None
    r = None
    try:
        r = T.parse_isotime(fresh_str('timestr'))
    except Exception as e:
        raised = e
    check('parse/value-or-valueerror',
          (raised is None and r is result) or isinstance(raised, ValueError))


class FieldDT:
    """datetime by fields (for marshalling)."""
    __absent__ = ('pop',)

    def __init__(self, year=None, month=None, day=None, hour=0, minute=0,
                 second=0, microsecond=0, tzinfo=None):
        self.year = year
        self.month = month
        self.day = day
        self.hour = hour
        self.minute = minute
        self.second = second
        self.microsecond = microsecond
        self.tzinfo = tzinfo

    def replace(self, tzinfo=None):
        return FieldDT(self.year, self.month, self.day, self.hour,
                       self.minute, self.second, self.microsecond, tzinfo)


class NamedTZ:
    def __init__(self, name):
        self.name = name

    def tzname(self, dt):
        return self.name


@proof('C12', targets=[(TU, 'marshall_now'), (TU, 'unmarshall_time')],
       native=False, assumes=['A-DATETIME: datetime(...) stores its fields; '
                              'ZoneInfo(name).tzname() == name'])
def marshalling_round_trip():
    T = load(TU)
    dtmod = _NS()
    dtmod.datetime = FieldDT
    model(T, 'datetime', dtmod)
    zi = _NS()
    zi.ZoneInfo = lambda name: NamedTZ(name)
    model(T, 'zoneinfo', zi)
    tzkind = pick('tz', ['naive', 'UTC', 'UTC+00:00', 'Europe/Paris'])
    x = FieldDT(fresh_int('year', 1, 9999), fresh_int('month', 1, 12),
                fresh_int('day', 1, 31), fresh_int('hour', 0, 23),
                fresh_int('minute', 0, 59), fresh_int('second', 0, 60),
                fresh_int('microsecond', 0, 999999),
                None if tzkind == 'naive' else NamedTZ(tzkind))
    d = T.marshall_now(x)
    check('marshall/fields', d['year'] == x.year and d['month'] == x.month
          and d['day'] == x.day and d['hour'] == x.hour
          and d['minute'] == x.minute and d['second'] == x.second
          and d['microsecond'] == x.microsecond)
    check('marshall/tzname', ('tzname' in d) == (tzkind != 'naive'))
    y = T.unmarshall_time(d)
    check('unmarshall/inverts-marshall',
          y.year == x.year and y.month == x.month and y.day == x.day
          and y.hour == x.hour and y.minute == x.minute
          and y.microsecond == x.microsecond)
    check('unmarshall/leap-second-capped-at-59',
          y.second == ite(x.second > 59, 59, x.second))
    if tzkind == 'naive':
        check('unmarshall/naive-stays-naive', y.tzinfo is None)
    else:
        check('unmarshall/utc-spellings-normalised',
              y.tzinfo.name == ('UTC' if tzkind == 'UTC+00:00' else tzkind))


@proof('C12', targets=[(TU, 'marshall_now')], native=False,
       assumes=['A-DATETIME'])
def marshall_now_defaults_to_the_overridden_clock():
    T = load(TU)
    x = FieldDT(2020, 2, 29, 23, 59, 59, 5)
    T.utcnow.override_time = x
    d = T.marshall_now()
    check('marshall/default-is-utcnow', d['year'] == 2020
          and d['microsecond'] == 5 and 'tzname' not in d)


@proof('C12', targets=[(FX, 'TimeFixture.__init__'), (FX, 'TimeFixture.setUp'),
                       (FX, 'TimeFixture.advance_time_delta'),
                       (FX, 'TimeFixture.advance_time_seconds')],
       native=False, assumes=['A-DATETIME', 'fixtures.Fixture.addCleanup '
                              'runs the callable at cleanUp'])
def time_fixture_contract():
    T = load(TU)
    F = load(FX)
    install_model(T)
    model(F, 'timeutils', T)
    now_us = fresh_int('now_us')
    now = DT(now_us)
    fx = F.TimeFixture(now)
    cleanups = []
    fx.addCleanup = lambda fn: cleanups.append(fn)
    fx.setUp()
    check('fixture/setup-overrides-the-clock', T.utcnow() is now)
    check('fixture/registers-exactly-one-cleanup', len(cleanups) == 1)
    how = pick('advance_by', ['delta', 'seconds'])
    if how == 'delta':
        d = fresh_int('delta_us')
        fx.advance_time_delta(TD(d))
        check('fixture/delta-exact', T.utcnow().us == now_us + d)
    else:
        s = fresh_real('seconds')
        fx.advance_time_seconds(s)
        check('fixture/seconds-exact', T.utcnow().us == now_us + s * 1000000)
    cleanups[0]()
    check('fixture/cleanup-clears-the-override',
          T.utcnow.override_time is None)
    # the fixture can be set up again: it overrides to the SAME instant
    fx.setUp()
    check('fixture/second-setup-uses-the-original-instant',
          T.utcnow() is now)


@bounded('C12', targets=[(TU, 'normalize_time'), (TU, 'is_older_than'),
                         (TU, 'is_newer_than'), (TU, 'is_soon'),
                         (TU, 'utcnow_ts'), (TU, 'marshall_now'),
                         (TU, 'unmarshall_time'), (TU, 'parse_isotime'),
                         (FX, 'TimeFixture')],
         bound='400 seeded datetimes over the representable range at '
               'microsecond resolution x offsets -23:59..+23:59 + named zones '
               '(incl. DST folds) x seconds {0, +-1us boundary, negative, '
               'fractional, huge}; validates A-DATETIME against the real '
               'datetime module and every clause on the real functions')
def real_datetime_family():
    import datetime
    import zoneinfo
    T = load(TU)
    F = load(FX)
    r = rng()
    UTC = datetime.timezone.utc
    EPOCH = datetime.datetime(1970, 1, 1)

    def us_of(naive):
        d = naive - EPOCH
        return (d.days * 86400 + d.seconds) * 1000000 + d.microseconds

    def rand_naive():
        c = r.random()
        if c < 0.1:
            return r.choice([datetime.datetime(1, 1, 2),
                             datetime.datetime(9999, 12, 30, 23, 59, 59,
                                               999999),
                             datetime.datetime(1969, 12, 31, 23, 59, 58,
                                               500000),
                             datetime.datetime(2021, 10, 31, 1, 30),
                             datetime.datetime(2000, 2, 29, 12)])
        return EPOCH + datetime.timedelta(
            days=r.randint(-700000, 2900000) if c < 0.3
            else r.randint(-20000, 40000),
            seconds=r.randint(0, 86399), microseconds=r.randint(0, 999999))
    zones = [UTC] + [datetime.timezone(datetime.timedelta(minutes=m))
                     for m in (-1439, -720, -1, 1, 330, 1439)]
    zones += [zoneinfo.ZoneInfo(n) for n in ('Europe/Paris',
                                              'America/New_York',
                                              'Australia/Lord_Howe',
                                              'Asia/Kolkata')]
    for i in range(400):
        n = rand_naive()
        check('dt/normalize-naive', T.normalize_time(n) is n)
        z = r.choice(zones)
        try:
            a = n.replace(tzinfo=z, fold=r.choice([0, 1]))
            want = a.astimezone(UTC).replace(tzinfo=None)
        except (OverflowError, ValueError):
            continue
        got = T.normalize_time(a)
        check('dt/normalize-aware', got == want and got.tzinfo is None,
              detail=(a.isoformat(), str(got), str(want)))
        now = rand_naive()
        fx = F.TimeFixture(now)
        fx.setUp()
        try:
            check('dt/utcnow-is-override', T.utcnow() == now
                  and T.utcnow() == now)
            check('dt/utcnow_ts', T.utcnow_ts() == us_of(now) // 1000000
                  and type(T.utcnow_ts()) is int,
                  detail=(str(now), T.utcnow_ts()))
            tsm = T.utcnow_ts(microsecond=True)
            check('dt/utcnow_ts-microsecond',
                  abs(tsm - us_of(now) / 1000000) < 1e-3, detail=str(now))
            gap = us_of(now) - us_of(want)
            for s_us in (0, gap, gap - 1, gap + 1, -gap, -gap - 1, -gap + 1,
                         1, -1, 1500000, 10 ** 13):
                s = s_us / 1000000
                if abs(s_us) > 10 ** 14:
                    continue
                exact = datetime.timedelta(seconds=s)
                s_model = (exact.days * 86400 + exact.seconds) * 1000000 \
                    + exact.microseconds
                whole_minutes = a.utcoffset().total_seconds() % 60 == 0
                for t, label in ((a, 'aware'), (want, 'naive'),
                                 (a.isoformat(), 'iso')):
                    if label == 'iso' and not whole_minutes:
                        continue    # ISO 8601 offsets have no seconds
                    check('dt/is_older_than',
                          T.is_older_than(t, s) == (gap > s_model),
                          detail=(label, str(now), str(a), s))
                    check('dt/is_newer_than',
                          T.is_newer_than(t, s) == (-gap > s_model),
                          detail=(label, str(now), str(a), s))
                for t, label in ((a, 'aware'), (want, 'naive')):
                    try:
                        soon = T.is_soon(t, s)
                    except OverflowError:
                        continue
                    check('dt/is_soon', soon == (-gap <= s_model),
                          detail=(label, str(now), str(a), s))
            # whole-second margins are exact whatever the distance: t is
            # placed k seconds and one microsecond away from now, k up to
            # thousands of years (beyond 2**53 microseconds)
            for k in (0, 1, 86400 * 365 * 300, 220898707200,
                      r.randint(2 ** 53 // 10 ** 6, 2 * 10 ** 11)):
                for sign in (1, -1):
                    try:
                        t = now + sign * datetime.timedelta(seconds=k,
                                                            microseconds=1)
                    except OverflowError:
                        continue
                    for s, beyond in ((k, True), (k + 1, False)):
                        older = sign < 0 and beyond
                        newer = sign > 0 and beyond
                        check('dt/is_older_than-far-whole-seconds',
                              T.is_older_than(t, s) == older,
                              detail=(str(now), str(t), s))
                        check('dt/is_newer_than-far-whole-seconds',
                              T.is_newer_than(t, s) == newer,
                              detail=(str(now), str(t), s))
            d_us = r.choice([0, 1, -1, 999999, 86400 * 10 ** 6,
                             r.randint(-10 ** 12, 10 ** 12)])
            try:
                fx.advance_time_delta(datetime.timedelta(microseconds=d_us))
                check('dt/advance_time_delta',
                      us_of(T.utcnow()) == us_of(now) + d_us,
                      detail=(str(now), d_us))
                fx.advance_time_seconds(2)
                check('dt/advance_time_seconds',
                      us_of(T.utcnow()) == us_of(now) + d_us + 2000000)
            except OverflowError:
                pass
        finally:
            fx.cleanUp()
        check('dt/cleanup-clears-override', T.utcnow.override_time is None)
        fx.setUp()
        try:
            check('dt/fixture-reuse-overrides-to-the-same-instant',
                  T.utcnow() == now, detail=str(now))
        finally:
            fx.cleanUp()
        for x in (n, n.replace(tzinfo=UTC),
                  n.replace(tzinfo=zoneinfo.ZoneInfo('UTC'))):
            y = T.unmarshall_time(T.marshall_now(x))
            check('dt/unmarshall-inverts-marshall',
                  y.replace(tzinfo=None) == x.replace(tzinfo=None)
                  and (y.tzinfo is None) == (x.tzinfo is None)
                  and (x.tzinfo is None
                       or y.utcoffset() == datetime.timedelta(0)),
                  detail=str(x))
        for x in (n, a):
            if x.tzinfo is not None and \
                    x.utcoffset().total_seconds() % 60 != 0:
                continue
            try:
                p = T.parse_isotime(x.isoformat())
            except ValueError:
                check('dt/parse_isotime-accepts-isoformat', False,
                      detail=x.isoformat())
                continue
            same = (p.replace(tzinfo=None) == x.replace(tzinfo=None)
                    if x.tzinfo is None else p == x)
            check('dt/parse_isotime-inverts-isoformat', same,
                  detail=(x.isoformat(), str(p)))
    # marshalling at the ends of the representable range, and in a process
    # whose local zone is not UTC (nothing may depend on the local zone)
    import os as _os
    import time as _time
    ends = [datetime.datetime(1, 1, 1, 0, 0, 0, 1),
            datetime.datetime(9999, 12, 31, 23, 59, 59, 999999),
            datetime.datetime(2021, 3, 14, 6, 14, 0, 5)]
    old_tz = _os.environ.get('TZ')
    for zone in (None, 'America/New_York', 'Asia/Kolkata'):
        if zone is not None:
            _os.environ['TZ'] = zone
            _time.tzset()
        try:
            for n0 in ends:
                for x in (n0, n0.replace(tzinfo=UTC),
                          n0.replace(tzinfo=zoneinfo.ZoneInfo('UTC'))):
                    try:
                        y = T.unmarshall_time(T.marshall_now(x))
                        okay = (y.replace(tzinfo=None)
                                == x.replace(tzinfo=None)
                                and (y.tzinfo is None) == (x.tzinfo is None)
                                and (x.tzinfo is None or y.utcoffset()
                                     == datetime.timedelta(0)))
                    except Exception as e:
                        okay = False
                        y = repr(e)
                    check('dt/unmarshall-inverts-marshall-at-the-ends-and-'
                          'in-any-local-zone', okay,
                          detail=(zone, str(x), str(y)))
        finally:
            if zone is not None:
                if old_tz is None:
                    _os.environ.pop('TZ', None)
                else:
                    _os.environ['TZ'] = old_tz
                _time.tzset()
    # very large deltas with a microsecond component (exactness must not
    # depend on a float round trip)
    for days, us in ((365 * 3000, 1), (365 * 9000, 999999), (3000000, 7),
                     (-365 * 3000, -1)):
        start = datetime.datetime(5000, 1, 1) if days < 0 else \
            datetime.datetime(2, 1, 1)
        delta = datetime.timedelta(days=days, microseconds=us)
        fx = F.TimeFixture(start)
        fx.setUp()
        try:
            fx.advance_time_delta(delta)
            check('dt/advance_time_delta-huge', T.utcnow() == start + delta,
                  detail=(str(start), str(delta), str(T.utcnow())))
            T.set_time_override(start)
            T.advance_time_delta(delta)
            check('dt/advance_time_delta-huge', T.utcnow() == start + delta,
                  detail=(str(start), str(delta)))
        finally:
            fx.cleanUp()
    d = T.marshall_now(datetime.datetime(2015, 6, 30, 23, 59, 59))
    d['second'] = 60
    check('dt/leap-second-capped',
          T.unmarshall_time(d) == datetime.datetime(2015, 6, 30, 23, 59, 59))
    for bad in ['', 'not a date', None, 5, '2020-13-45']:
        try:
            T.parse_isotime(bad)
            exc = None
        except ValueError:
            exc = 'ValueError'
        except Exception as e:
            exc = type(e).__name__
        check('dt/parse_isotime-bad-input-valueerror', exc == 'ValueError',
              detail=(repr(bad), exc))


CANARIES = [
    dict(name='older-than-uses-ge', file=TU,
         proofs=['comparisons_against_the_overridden_clock'],
         old='    return utcnow() - before > datetime.timedelta(seconds=seconds)',
         new='    return utcnow() - before >= datetime.timedelta(seconds=seconds)',
         expect='older/'),
    dict(name='normalize-adds-offset', file=TU,
         proofs=['normalize_time_contract'],
         old='    return timestamp.replace(tzinfo=None) - offset',
         new='    return timestamp.replace(tzinfo=None) + offset',
         expect='normalize/'),
    dict(name='newer-skips-normalize', file=TU,
         proofs=['comparisons_against_the_overridden_clock'],
         old='    after = normalize_time(after)\n', new='',
         expect=''),
    dict(name='leap-second-cap-removed', file=TU,
         proofs=['marshalling_round_trip'],
         old="    second = min(tyme['second'], _MAX_DATETIME_SEC)",
         new="    second = tyme['second']", expect='unmarshall/leap'),
    dict(name='advance-subtracts', file=TU,
         proofs=['overridden_clock_contract'],
         old='        utcnow.override_time += timedelta',
         new='        utcnow.override_time -= timedelta', expect='advance/'),
]

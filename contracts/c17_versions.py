"""C17 - version helpers preserve ordering and PEP 440 semantics.

* radix-1000 packing: convert_version_to_int on a tuple is the Horner value,
  convert_version_to_str inverts it, for tuples of length 1..6 with SYMBOLIC
  components (every value 0..999, first >= 1) - the loop of
  convert_version_to_str is unrolled by the solver (its exit test is decided
  by the path condition), str() is an uninterpreted injective rendering;
* order: the induction step `A*1000+x < B*1000+y  <=>  A<B or (A==B and x<y)`
  for 0 <= x,y <= 999 (pure LIA) extends "integer order == lexicographic
  order" from length n to n+1, hence to every length;
* is_compatible and VersionPredicate.satisfied_by: control flow against an
  abstract packaging.version.Version (A-PACKAGING: a total order with a
  .major), operator table checked entry by entry.
"""
from pyvc.api import (proof, bounded, load, model, blank, tier, fresh_int,
                      fresh_bool, fresh_str, pick, assume, check, implies,
                      conj, disj, neg, rng, in_lang, re_lang)

VU = 'oslo_utils/versionutils.py'


def components(n):
    t = []
    for i in range(n):
        t.append(fresh_int('c%d' % i, 1 if i == 0 else 0, 999))
    return tuple(t)


def horner(t):
    v = 0
    for c in t:
        v = v * 1000 + c
    return v


@proof('C17', targets=[(VU, 'convert_version_to_int'),
                       (VU, 'convert_version_to_str')],
       assumes=['A-STDLIB-INT: str(n) is an injective rendering'])
def radix_1000_round_trip():
    V = load(VU)
    n = pick('length', [1, 2, 3, 4, 5, 6] if tier() == 'quick'
             else [1, 2, 3, 4, 5, 6, 7, 8])
    t = components(n)
    i = V.convert_version_to_int(t)
    check('radix/int-is-horner-value', i == horner(t))
    s = V.convert_version_to_str(i)
    check('radix/str-inverts-int', s == '.'.join([str(c) for c in t]))


@proof('C17', targets=[(VU, 'convert_version_to_int')])
def integer_order_is_component_order():
    """Same length: comparing the integers == comparing the tuples."""
    V = load(VU)
    n = pick('length', [1, 2, 3, 4, 5])
    a = tuple([fresh_int('a%d' % i, 0, 999) for i in range(n)])
    b = tuple([fresh_int('b%d' % i, 0, 999) for i in range(n)])
    ia = V.convert_version_to_int(a)
    ib = V.convert_version_to_int(b)
    check('order/less', (ia < ib) == (a < b))
    check('order/equal', (ia == ib) == (a == b))


@proof('C17', targets=[(VU, 'convert_version_to_int')])
def order_lemma_induction_step():
    """A, B: packed values of two equal-length prefixes for which the claim
    holds (hypothesis: A<B <=> prefix_a<prefix_b, A==B <=> prefixes equal);
    appending one component each keeps it.  Pure arithmetic: every length."""
    A = fresh_int('A', 0)
    B = fresh_int('B', 0)
    x = fresh_int('x', 0, 999)
    y = fresh_int('y', 0, 999)
    check('order-step/less',
          (A * 1000 + x < B * 1000 + y) == disj(A < B, conj(A == B, x < y)))
    check('order-step/equal',
          (A * 1000 + x == B * 1000 + y) == conj(A == B, x == y))


@proof('C17', targets=[(VU, 'convert_version_to_int')])
def non_numeric_component_raises_valueerror():
    V = load(VU)
    bad = pick('version', ['1.x.3', '1..2', 'a', '', '1.2.', (1, None),
                           '1.2-3', '1.0rc', (), (1, 'x', 3)])
    raised = None
    try:
        V.convert_version_to_int(bad)
    except Exception as e:
        raised = e
    check('invalid/valueerror', isinstance(raised, ValueError))


class FakeVersion:
    """A-PACKAGING: versions form a total order and have a .major."""

    def __init__(self, text, log):
        self.text = text
        self.log = log
        self.major = fresh_int('major_of_%s' % text, 0)

    def _cmp(self, op, other):
        self.log.append((op, self.text, other.text))
        return fresh_bool('%s_%s_%s' % (self.text, op, other.text))

    def __ge__(self, other):
        return self._cmp('ge', other)

    def __gt__(self, other):
        return self._cmp('gt', other)

    def __le__(self, other):
        return self._cmp('le', other)

    def __lt__(self, other):
        return self._cmp('lt', other)

    def __eq__(self, other):
        return self._cmp('eq', other)

    def __ne__(self, other):
        return self._cmp('ne', other)

    def __hash__(self):
        return 0


class _NS:
    pass


def fake_packaging(V, log):
    pk = _NS()
    pk.version = _NS()
    pk.version.Version = lambda text: FakeVersion(text, log)
    model(V, 'packaging', pk)


@proof('C17', targets=[(VU, 'is_compatible')], native=False,
       assumes=['A-PACKAGING'])
def is_compatible_contract():
    V = load(VU)
    log = []
    fake_packaging(V, log)
    same_major = pick('same_major', [True, False])
    r = V.is_compatible('req', 'cur', same_major)
    # the values the fakes handed out (same names => same symbols)
    majors_equal = fresh_int('major_of_req', 0) == fresh_int('major_of_cur', 0)
    ge = fresh_bool('cur_ge_req')
    check('compatible/iff-cur-ge-req-and-majors-equal-when-asked',
          r == conj(ge, disj(not same_major, majors_equal))
          if ('ge', 'cur', 'req') in log else
          conj(r == False, same_major, neg(majors_equal)))  # noqa: E712
    check('compatible/compares-current-against-requested',
          all([entry == ('ge', 'cur', 'req') for entry in log]))


OPS = ['<', '<=', '==', '>', '>=', '!=']


@proof('C17', targets=[(VU, 'convert_version_to_tuple')], native=False)
def prerelease_marker_is_stripped_from_the_end_only():
    """convert_version_to_tuple first rewrites the text with one re.sub: the
    lemma is about that call - the pattern finds <digits><marker><digits> at
    the END of the text only (so a marker in an earlier component survives
    and makes int() raise), the replacement keeps the leading digits, and
    the text handed over is the argument."""
    V = load(VU)
    calls = []

    class FakeRe:
        def sub(self, pattern, repl, string, count=0, flags=0):
            calls.append((pattern, repl, string, count, flags))
            return '12.1'
    model(V, 're', FakeRe())
    text = fresh_str('version')
    got = V.convert_version_to_tuple(text)
    check('tuple/one-substitution-on-the-argument',
          len(calls) == 1 and calls[0][2] == text and calls[0][3] == 0)
    pattern, repl, _s, _c, flags = calls[0]
    check('tuple/replacement-keeps-the-leading-digits', repl == '\\1')
    x = fresh_str('any_text')
    found = in_lang(x, re_lang(pattern, flags, 'search'))
    spec = in_lang(x, re_lang(
        r'(.|\n)*[0-9]+(a|alpha|b|beta|rc)[0-9]+\n?', 0, 'full'))
    # (digits: the documented ASCII ones; \d also takes other Unicode
    # decimal digits, which int() accepts as well)
    check('tuple/marker-found-only-at-the-end-of-the-text',
          implies(found, in_lang(x, re_lang(
              r'(.|\n)*\d+(a|alpha|b|beta|rc)\d+\n?', 0, 'full'))))
    check('tuple/every-trailing-marker-is-found', implies(spec, found))
    check('tuple/split-on-dots-and-int',
          got == (12, 1))


@proof('C17', targets=[(VU, 'VersionPredicate._PREDICATE_MATCH')])
def predicate_clause_language():
    """A clause is optional blanks, one of the six operators, optional
    blanks, a blank-free version text, optional blanks - nothing else."""
    V = load(VU)
    pat = V.VersionPredicate._PREDICATE_MATCH
    x = fresh_str('clause')
    accepted = in_lang(x, re_lang(pat.pattern, pat.flags, 'match'))
    spec = in_lang(x, re_lang(r'\s*(<=|>=|<|>|!=|==)\s*\S+\s*', 0, 'full'))
    check('clause/accepts-only-the-documented-form', implies(accepted, spec))
    check('clause/accepts-every-documented-form', implies(spec, accepted))


@proof('C17', targets=[(VU, 'VersionPredicate._COMP_MAP')])
def comparison_table_is_the_documented_one():
    V = load(VU)
    table = V.VersionPredicate._COMP_MAP
    check('table/exactly-six-operators', sorted(table.keys()) == sorted(OPS))
    want = {'<': [True, False, False], '<=': [True, True, False],
            '==': [False, True, False], '>': [False, False, True],
            '>=': [False, True, True], '!=': [True, False, True]}
    for op in OPS:
        got = [table[op](1, 2), table[op](2, 2), table[op](2, 1)]
        check('table/operator-' + op, got == want[op])


@proof('C17', targets=[(VU, 'VersionPredicate.satisfied_by')], native=False,
       assumes=['A-PACKAGING'])
def satisfied_by_is_the_conjunction():
    V = load(VU)
    log = []
    fake_packaging(V, log)
    n = pick('clauses', [0, 1, 2, 3])
    p = blank(V.VersionPredicate)
    conds = [pick('op%d' % i, OPS) for i in range(n)]
    vers = [FakeVersion('v%d' % i, log) for i in range(n)]
    p.pred = [(c, v) for c, v in zip(conds, vers)]
    r = p.satisfied_by('cand')
    names = {'<': 'lt', '<=': 'le', '==': 'eq', '>': 'gt', '>=': 'ge',
             '!=': 'ne'}
    outcomes = [fresh_bool('cand_%s_v%d' % (names[c], i))
                for i, c in enumerate(conds)]
    check('predicate/holds-iff-every-comparison-does', r == conj(outcomes))
    check('predicate/each-clause-compares-candidate-with-its-version',
          all([entry == (names[conds[i]], 'cand', 'v%d' % i)
               for i, entry in enumerate(log)]))


@bounded('C17', targets=[(VU, 'convert_version_to_int'),
                         (VU, 'convert_version_to_str'),
                         (VU, 'convert_version_to_tuple'),
                         (VU, 'is_compatible'), (VU, 'VersionPredicate')],
         bound='tuples of length 1..5 over {0,1,9,10,99,100,999,random}; '
               'pre-release suffixes a/alpha/b/beta/rc x numbers 0..120; '
               '40x40 PEP 440 version pairs x same_major; conjunctions of '
               '1..3 predicates x 40 candidates; malformed predicates')
def versions_family():
    import itertools
    import packaging.version as pv
    V = load(VU)
    r = rng()
    vals = [0, 1, 9, 10, 99, 100, 999]
    tuples = []
    for n in range(1, 6):
        for _ in range(120):
            t = tuple(r.choice(vals + [r.randint(0, 999)])
                      for _ in range(n))
            if t[0] == 0:
                t = (r.choice([1, 9, 999]),) + t[1:]
            tuples.append(t)
    for t in tuples:
        s = '.'.join(map(str, t))
        i = V.convert_version_to_int(s)
        check('family/int-of-str-equals-int-of-tuple',
              i == V.convert_version_to_int(t), detail=s)
        check('family/round-trip', V.convert_version_to_str(i) == s,
              detail=(s, i))
        check('family/tuple', V.convert_version_to_tuple(s) == t, detail=s)
    for a, b in zip(tuples, tuples[1:] + tuples[:1]):
        if len(a) == len(b):
            check('family/order', (V.convert_version_to_int(a)
                                   < V.convert_version_to_int(b)) == (a < b),
                  detail=(a, b))
    for tag in ('a', 'alpha', 'b', 'beta', 'rc'):
        for k in (0, 1, 9, 10, 12, 99, 120):
            for base in ('1.2.3', '6.7.0', '10', '1.999'):
                s = '%s%s%d' % (base, tag, k)
                try:
                    got = V.convert_version_to_int(s)
                    exc = None
                except ValueError:
                    got, exc = None, 'ValueError'
                check('family/pre-release-suffix-ignored', exc is None
                      and got == V.convert_version_to_int(base), detail=s)
    for s in ['1.a', 'x', '1..2', '', '1.2.', '1.2rc', '1.2rc1.3', '1.2-3',
              'a1.2', '1 .2x']:
        try:
            V.convert_version_to_int(s)
            exc = None
        except ValueError:
            exc = 'ValueError'
        except Exception as e:
            exc = type(e).__name__
        check('family/non-numeric-valueerror', exc == 'ValueError',
              detail=(s, exc))
    vers = ['0', '1', '1.0', '1.0.1', '1.1', '2', '2.0.0', '10.1', '1.0a1',
            '1.0b2', '1.0rc1', '1.0.post1', '1.0.dev3', '1!0.5', '1!2.0',
            '2!1.0', '1.0+local', '0.9.99', '1.0rc10', '3.0.0.0', '1.10',
            '1.9']
    for a, b in itertools.product(vers, vers):
        for sm in (True, False):
            want = pv.Version(b) >= pv.Version(a) and (
                not sm or pv.Version(a).major == pv.Version(b).major)
            check('family/is_compatible', V.is_compatible(a, b, sm) == want,
                  detail=(a, b, sm))
    ops = {'<': lambda x, y: x < y, '<=': lambda x, y: x <= y,
           '==': lambda x, y: x == y, '>': lambda x, y: x > y,
           '>=': lambda x, y: x >= y, '!=': lambda x, y: x != y}
    for _ in range(300):
        k = r.randint(1, 3)
        clauses = [(r.choice(OPS), r.choice(vers)) for _ in range(k)]
        text = ','.join('%s%s%s%s' % (r.choice(['', ' ']), o,
                                      r.choice(['', ' ', '  ']), v)
                        for o, v in clauses)
        p = V.VersionPredicate(text)
        for cand in vers:
            want = all(ops[o](pv.Version(cand), pv.Version(v))
                       for o, v in clauses)
            check('family/predicate', p.satisfied_by(cand) == want,
                  detail=(text, cand))
    for bad in ['', '1.0', '=1.0', '>=', '>= 1.0 2.0', '~=1.0', '>=1.0,',
                ',>=1.0', '>=1.0;<2', '=>1.0', '>= x y', '>=not a version']:
        try:
            V.VersionPredicate(bad)
            exc = None
        except ValueError:
            exc = 'ValueError'
        except Exception as e:
            exc = type(e).__name__
        check('family/malformed-predicate-valueerror', exc == 'ValueError',
              detail=(bad, exc))


CANARIES = [
    dict(name='prerelease-end-anchor-dropped', prop='C17', file=VU,
         proofs=['prerelease_marker_is_stripped_from_the_end_only'],
         old=r"rc)\d+$', '\\1'", new=r"rc)\d+', '\\1'",
         expect='tuple/marker-found-only-at-the-end'),
    dict(name='predicate-operator-tilde-admitted', prop='C17', file=VU,
         proofs=['predicate_clause_language'],
         old='(<=|>=|<|>|!=|==)', new='(<=|>=|<|>|!=|==|~=)',
         expect='clause/accepts-only'),
    dict(name='radix-100', file=VU, proofs=['radix_1000_round_trip'],
         old='lambda x, y: (x * 1000) + y', new='lambda x, y: (x * 100) + y',
         expect='radix/'),
    dict(name='str-appends-instead-of-prepending', file=VU,
         proofs=['radix_1000_round_trip'],
         old='version_numbers.insert(0, str(version_number))',
         new='version_numbers.append(str(version_number))',
         expect='radix/str'),
    dict(name='compatible-strict', file=VU,
         proofs=['is_compatible_contract'],
         old='    return current >= requested',
         new='    return current > requested', expect='compatible/'),
    dict(name='comp-map-swapped', file=VU,
         proofs=['comparison_table_is_the_documented_one'],
         old='"<": operator.lt, "<=": operator.le,',
         new='"<": operator.le, "<=": operator.lt,', expect='table/'),
    dict(name='predicate-early-true', file=VU,
         proofs=['satisfied_by_is_the_conjunction'],
         old="            if not self._COMP_MAP[cond](version, ver):\n                return False\n        return True",
         new="            if not self._COMP_MAP[cond](version, ver):\n                return False\n            return True\n        return True",
         expect='predicate/'),
]


# Code-independent schema lemma, checked by the Lean 4 kernel on every run:
# for tuples of ANY common length with components 0..999 the order of the
# Horner values is the component-wise order, and packing is injective.  The
# per-length obligations above (z3) tie the real loop to the Horner value.
LEMMAS = [
    dict(name='schema/radix-1000-order-for-every-length',
         props=['C17'], file='lean/RadixOrder.lean',
         theorems=['horner_lt_iff', 'packed_order_is_component_order',
                   'lexlt_irrefl', 'lexlt_total', 'packed_injective']),
]

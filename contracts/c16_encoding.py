"""C16 - text coding helpers: type contract, round trip, idempotence.

Codecs are dependencies: str.encode / bytes.decode are uninterpreted
operators that may raise UnicodeError subclasses or LookupError, with the one
law decode(encode(t, e), e) == t (A-CODEC).  Proved on the real code: the
type contract (TypeError exactly for non-text), identity on str / on bytes
when the encodings agree case-insensitively, which codec call is made with
which arguments (incl. the errors policy and the UTF-8 fallback), and the
round trip.  to_slug (unicodedata + two regex substitutions) is covered by
the bounded family only.
"""
from pyvc.api import (proof, bounded, load, model, fresh_str, fresh_bytes,
                      fresh_int, pick, assume, check, implies, conj, disj,
                      neg, rng)

EU = 'oslo_utils/encodeutils.py'
SU = 'oslo_utils/strutils.py'

NON_TEXT = [None, 5, 2.5, ['a'], ('a',), {'a': 1}, True]


@proof('C16', targets=[(EU, 'safe_decode'), (EU, 'safe_encode'),
                       (EU, 'to_utf8')])
def non_text_arguments_raise_typeerror():
    E = load(EU)
    v = pick('value', NON_TEXT)
    f = pick('function', ['safe_decode', 'safe_encode', 'to_utf8'])
    raised = None
    try:
        if f == 'safe_decode':
            E.safe_decode(v)
        elif f == 'safe_encode':
            E.safe_encode(v)
        else:
            E.to_utf8(v)
    except Exception as e:
        raised = e
    check('types/typeerror-for-non-text', isinstance(raised, TypeError))


@proof('C16', targets=[(EU, 'safe_decode')], native=False,
       assumes=['A-CODEC'])
def safe_decode_contract():
    E = load(EU)
    errors = pick('errors', ['strict', 'ignore', 'replace'])
    kind = pick('kind', ['str', 'bytes'])
    incoming = fresh_str('incoming') if pick('incoming_given',
                                             [True, False]) else None
    if kind == 'str':
        t = fresh_str('text')
        r = E.safe_decode(t, incoming, errors)
        check('decode/str-returned-unchanged', r is t)
        return
    b = fresh_bytes('text')
    raised = None
    r = None
    try:
        r = E.safe_decode(b, incoming, errors)
    except Exception as e:
        raised = e
    enc = incoming if (incoming is not None and len(incoming) > 0) \
        else 'utf-8'
    primary = None
    primary_error = None
    try:
        primary = b.decode(enc, errors)
    except Exception as e:
        primary_error = e
    if primary_error is None:
        check('decode/bytes-decoded-with-the-given-encoding-and-policy',
              raised is None and r == primary)
    elif isinstance(primary_error, UnicodeDecodeError):
        fallback = None
        fallback_error = None
        try:
            fallback = b.decode('utf-8', errors)
        except Exception as e:
            fallback_error = e
        if fallback_error is None:
            check('decode/falls-back-to-utf8-with-the-same-policy',
                  raised is None and r == fallback)
        else:
            check('decode/fallback-failure-propagates', raised is not None)
    else:
        check('decode/unknown-codec-error-propagates',
              isinstance(raised, LookupError))


@proof('C16', targets=[(EU, 'safe_encode')], native=False,
       assumes=['A-CODEC'])
def safe_encode_contract():
    E = load(EU)
    errors = pick('errors', ['strict', 'ignore', 'replace'])
    kind = pick('kind', ['str', 'bytes', 'empty-bytes'])
    incoming = fresh_str('incoming')
    encoding = fresh_str('encoding')
    assume(len(incoming) > 0)
    raised = None
    r = None
    if kind == 'str':
        t = fresh_str('text')
        try:
            r = E.safe_encode(t, incoming, encoding, errors)
        except Exception as e:
            raised = e
        want = None
        want_error = None
        try:
            want = t.encode(encoding.lower(), errors)
        except Exception as e:
            want_error = e
        if want_error is None:
            check('encode/str-encoded-with-lowercased-encoding-and-policy',
                  raised is None and r == want)
            if raised is None and len(encoding) > 0 \
                    and encoding.lower() == encoding:
                back = E.safe_decode(r, encoding, errors)
                check('encode/round-trip-through-safe_decode', back == t)
        else:
            check('encode/codec-error-propagates', raised is not None)
        return
    b = b'' if kind == 'empty-bytes' else fresh_bytes('text', min_len=1)
    try:
        r = E.safe_encode(b, incoming, encoding, errors)
    except Exception as e:
        raised = e
    agree = incoming.lower() == encoding.lower()
    if kind == 'empty-bytes':
        check('encode/empty-bytes-untouched', raised is None and r is b)
    elif agree:
        check('encode/bytes-untouched-when-encodings-agree-ignoring-case',
              raised is None and r is b)
    elif raised is None:
        mid = E.safe_decode(b, incoming.lower(), errors)
        check('encode/bytes-transcoded-from-incoming-to-encoding',
              r == mid.encode(encoding.lower(), errors))


class _NS:
    pass


@proof('C16', targets=[(EU, 'to_utf8')], native=False, assumes=['A-CODEC'])
def to_utf8_contract():
    E = load(EU)
    # whatever the process's default encodings are
    fake_sys = _NS()
    fake_sys.stdin = _NS()
    fake_sys.stdin.encoding = fresh_str('stdin_encoding')
    fake_sys.getdefaultencoding = lambda: fresh_str('default_encoding')
    model(E, 'sys', fake_sys)
    if pick('kind', ['bytes', 'str']) == 'bytes':
        b = fresh_bytes('text')
        check('utf8/bytes-identity', E.to_utf8(b) is b)
    else:
        t = fresh_str('text')
        raised = None
        r = None
        try:
            r = E.to_utf8(t)
        except Exception as e:
            raised = e
        if raised is None:
            check('utf8/str-is-utf8-encoding', r == t.encode('utf-8'))
        else:
            check('utf8/only-codec-errors', isinstance(raised, UnicodeError))


@bounded('C16', targets=[(EU, 'safe_decode'), (EU, 'safe_encode'),
                         (EU, 'to_utf8'), (SU, 'to_slug')],
         bound='40 unicode strings (BMP, astral, combining, ligatures, CJK) '
               'and derived byte strings x 8 encodings in 3 letter cases x 3 '
               'error policies; to_slug: all strings of length <= 3 over a '
               '26-character alphabet + 400 seeded longer ones')
def codecs_and_slug_family():
    import itertools
    import re
    E = load(EU)
    S = load(SU)
    r = rng()
    texts = ['', 'a', 'abc', 'café', 'naïve', 'ß', 'ø',
             'đ', 'Жук', '你好',
             'こんにちは', '\U0001f600', 'é',
             'ﬁ', 'Å', 'Ω', 'x y', 'tab\there',
             'nl\nx', 'quote"\'', '\x00', '\x7f\x80', '€', '￿']
    while len(texts) < 40:
        n = r.randint(1, 6)
        texts.append(''.join(chr(r.choice([r.randint(32, 126),
                                           r.randint(160, 0x2ff),
                                           r.randint(0x400, 0x4ff),
                                           r.randint(0x4e00, 0x4e80),
                                           r.randint(0x1f600, 0x1f640)]))
                             for _ in range(n)))
    encs = ['utf-8', 'utf-16', 'latin-1', 'ascii', 'cp1252', 'shift_jis',
            'utf-32', 'koi8-r']
    policies = ['strict', 'ignore', 'replace']

    def variants(e):
        return [e, e.upper(), e.title()]
    for t in texts:
        check('codec/safe_decode-str-identity', E.safe_decode(t) is t)
        check('codec/to_utf8-str', E.to_utf8(t) == t.encode('utf-8')
              if not any(0xd800 <= ord(c) <= 0xdfff for c in t) else True)
        for e in encs:
            for ev in variants(e):
                for p in policies:
                    try:
                        want = t.encode(e, p)
                    except UnicodeEncodeError:
                        want = None
                    try:
                        got = E.safe_encode(t, encoding=ev, errors=p)
                        exc = None
                    except UnicodeEncodeError:
                        got, exc = None, 'UnicodeEncodeError'
                    check('codec/safe_encode-str',
                          got == want and (exc is None) == (want is not None),
                          detail=(t, ev, p))
                    if want is None:
                        continue
                    if p == 'strict':
                        back = E.safe_decode(got, incoming=ev, errors=p)
                        check('codec/round-trip', back == t,
                              detail=(t, ev, p))
                    # bytes in, same encoding in any case: untouched
                    for iv in variants(e):
                        same = E.safe_encode(want, incoming=iv, encoding=ev,
                                             errors=p)
                        check('codec/bytes-untouched-when-encodings-agree',
                              same is want, detail=(t, iv, ev))
                    # transcoding
                    for e2 in ('utf-8', 'utf-16', 'latin-1'):
                        if e2 == e or not want:
                            continue
                        try:
                            w2 = want.decode(e, p).encode(e2, p)
                        except UnicodeError:
                            continue
                        g2 = E.safe_encode(want, incoming=ev,
                                           encoding=e2.upper(), errors=p)
                        check('codec/bytes-transcoded', g2 == w2,
                              detail=(t, ev, e2, p))
    # safe_decode on arbitrary bytes: given encoding, else UTF-8 fallback
    blobs = [b'', b'abc', b'caf\xe9', b'\xff\xfe', b'\x80', b'\xe4\xbd\xa0',
             'こん'.encode('shift_jis') + b'\xff',
             'x'.encode('utf-16'), b'\xc3\x28', b'\xed\xa0\x80']
    blobs += [bytes(r.getrandbits(8) for _ in range(r.randint(1, 6)))
              for _ in range(30)]
    import sys as real_sys

    class FakeStdin:
        def __init__(self, enc):
            self.encoding = enc
    for b in blobs:
        check('codec/to_utf8-bytes-identity', E.to_utf8(b) is b)
        old_stdin = real_sys.stdin
        for enc in ('latin-1', 'ascii', 'utf-16', None):
            real_sys.stdin = FakeStdin(enc)
            try:
                try:
                    got = E.to_utf8(b)
                    exc = None
                except Exception as e:
                    got, exc = None, type(e).__name__
            finally:
                real_sys.stdin = old_stdin
            check('codec/to_utf8-bytes-identity-under-any-stdin-encoding',
                  exc is None and got is b, detail=(b, enc, exc))
        for e in encs:
            for ev in variants(e):
                for p in policies:
                    try:
                        want = b.decode(e, p)
                        wexc = None
                    except UnicodeDecodeError:
                        try:
                            want = b.decode('utf-8', p)
                            wexc = None
                        except UnicodeDecodeError:
                            want, wexc = None, 'UnicodeDecodeError'
                    try:
                        got = E.safe_decode(b, incoming=ev, errors=p)
                        exc = None
                    except UnicodeDecodeError:
                        got, exc = None, 'UnicodeDecodeError'
                    check('codec/safe_decode-bytes', got == want
                          and exc == wexc, detail=(b, ev, p))
    for bad in NON_TEXT:
        for fn in (E.safe_decode, E.safe_encode, E.to_utf8):
            try:
                fn(bad)
                exc = None
            except TypeError:
                exc = 'TypeError'
            except Exception as e:
                exc = type(e).__name__
            check('codec/non-text-typeerror', exc == 'TypeError',
                  detail=(repr(bad), fn.__name__, exc))
    # to_slug
    alphabet = ['a', 'Z', '0', '_', '-', ' ', '\t', '\n', '!', '.', '/',
                'é', 'ß', 'ø', 'đ', 'Ж', '你',
                'ﬁ', 'é', '\U0001f600', ' ', 'Ω', "'",
                '--', '  ', 'Å']
    # separator characters that are whitespace only in Unicode mode
    alphabet += [chr(0x1c), chr(0x1f), chr(0x0b), chr(0x85), chr(0xa0),
                 chr(0x2028), chr(0x3000)]
    # caseless compatibility characters whose NFKD form holds ASCII capitals
    # (TM, degree C, No, double-struck R, kPa, roman numeral, bold A, squared
    # A, Kelvin sign, a.m.)
    alphabet += [chr(0x2122), chr(0x2103), chr(0x2116), chr(0x211d),
                 chr(0x33a9), chr(0x2167), chr(0x1d400), chr(0x1f130),
                 chr(0x212a), chr(0x33c2)]
    ok = re.compile(r'[a-z0-9_]*(-[a-z0-9_]+)*-?\Z')

    def slug_checks(x):
        y = S.to_slug(x)
        check('slug/alphabet', re.fullmatch(r'[a-z0-9_-]*', y) is not None,
              detail=(x, y))
        check('slug/single-hyphens', '--' not in y, detail=(x, y))
        check('slug/idempotent', S.to_slug(y) == y, detail=(x, y,
                                                           S.to_slug(y)))
    for n in (0, 1, 2, 3):
        for combo in itertools.product(alphabet, repeat=n):
            if n == 3 and r.random() > 0.25:
                continue
            slug_checks(''.join(combo))
    for _ in range(400):
        slug_checks(''.join(r.choice(alphabet)
                            for _ in range(r.randint(4, 12))))
    for x in ['a ß b', 'x Ж y', ' 你 ', 'a - b', '-a-', 'a--b']:
        slug_checks(x)
    check('slug/bytes-input', S.to_slug(b'Hello World') == 'hello-world')
    try:
        S.to_slug(5)
        exc = None
    except TypeError:
        exc = 'TypeError'
    check('slug/non-text-typeerror', exc == 'TypeError')


CANARIES = [
    dict(name='encoding-not-lowercased', file=EU,
         proofs=['safe_encode_contract'],
         old="    if hasattr(encoding, 'lower'):\n        encoding = encoding.lower()\n",
         new='', expect='encode/'),
    dict(name='errors-not-forwarded', file=EU,
         proofs=['safe_decode_contract'],
         old='        return text.decode(incoming, errors)',
         new='        return text.decode(incoming)', expect='decode/'),
    dict(name='fallback-latin1', file=EU, proofs=['safe_decode_contract'],
         old="        return text.decode('utf-8', errors)",
         new="        return text.decode('latin-1', errors)",
         expect='decode/falls-back'),
    dict(name='to_utf8-wrong-codec', file=EU, proofs=['to_utf8_contract'],
         old="        return text.encode('utf-8')\n    else:\n        raise TypeError(\"bytes or Unicode",
         new="        return text.encode('utf-16')\n    else:\n        raise TypeError(\"bytes or Unicode",
         expect='utf8/'),
]

# also: C01 C05 C07 C03
"""C02 / C01 / C05 / C07 - VMDK: header-driven relocation, footer region,
descriptor and footer checks (sparse-header path class: S[0:4] == b'KDMV').

hdr is the symbolic content of the 'header' region once it is complete
(64 <= len(hdr) <= 512: the region stops capturing after min_length bytes, so
its length is chunk dependent; every reader uses only the first 64 / 44
bytes).  The is_text scan of post_process (irrelevant when the signature is
KDMV) is cut by a trivial invariant; bytes.decode is abstract (A-CODEC).
Text-descriptor mode is the known finding F1 and is not under contract.
"""
from pyvc.api import (proof, load, invariant, model, tier, fresh_int, fresh_bytes,
                      fresh_str, fresh_bool, pick, assume, check, implies,
                      conj, disj, neg, le, same, stub, cover, forall_int,
                      byte_at)

FI = 'oslo_utils/imageutils/format_inspector.py'
GD_AT_END = 0xffffffffffffffff
DESC_MAX = (1 << 20) - 1


def sparse_state(M, text_scan=True):
    insp = M.VMDKInspector()
    k = fresh_int('header_bytes_captured', 64, 512)
    hdr = fresh_bytes('hdr', length=k)
    insp.region('header').data = hdr
    if text_scan:
        invariant(M, 'VMDKInspector.post_process', 0, lambda i, L: True,
                  name='is_text-scan')
    return insp, hdr


@proof(['C02', 'C01', 'C05'],
       targets=[(FI, 'VMDKInspector._initialize'),
                (FI, 'VMDKInspector.post_process'),
                (FI, 'VMDKInspector._parse_sparse_header')],
       native=False, assumes=['A-CODEC: bytes.decode abstract',
                              'str.isprintable/isspace uninterpreted'])
def post_process_contract():
    M = load(FI)
    insp0 = M.VMDKInspector()
    check('init/regions', [(n, r.offset, r.length, r.min_length) for n, r in
                           insp0._capture_regions.items()]
          == [('header', 0, 512, 64), ('descriptor', 0, DESC_MAX, 4)], 'C05')
    check('init/checks', list(insp0._safety_checks.keys()) == ['descriptor']
          and insp0.desc_text is None, 'C02')
    insp, hdr = sparse_state(M)
    sig_ok = hdr[0:4] == b'KDMV'
    ver = le(hdr, 4, 4)
    desc_sec = le(hdr, 28, 8)
    desc_num = le(hdr, 36, 8)
    gd = le(hdr, 56, 8)
    raised = None
    try:
        insp.post_process()
    except M.ImageFormatError as e:
        raised = e
    names = list(insp._capture_regions.keys())
    if not sig_ok:
        # text or error: either the header region is dropped and nothing
        # else happens, or ImageFormatError
        check('pp/non-sparse-signature-is-text-mode-or-error',
              raised is not None or names == ['descriptor'], 'C02')
        return
    bad = disj(conj(ver != 1, ver != 2, ver != 3), desc_sec * 512 != 512)
    check('pp/error-iff-bad-version-or-misplaced-descriptor',
          (raised is not None) == bad, 'C02 C01')
    if raised is not None:
        return
    check('pp/footer-region-iff-gd-at-end',
          ('footer' in names) == (gd == GD_AT_END), 'C02 C01')
    check('pp/footer-check-registered-iff-footer',
          ('footer' in insp._safety_checks) == (gd == GD_AT_END), 'C02')
    if 'footer' in names:
        f = insp.region('footer')
        check('pp/footer-is-a-1536-byte-tail-window',
              isinstance(f, M.EndCaptureRegion) and f.length == 1536
              and f.data == b'', 'C02 C05')
    d = insp.region('descriptor')
    want_len = desc_num * 512 if desc_num * 512 <= DESC_MAX else DESC_MAX
    check('pp/descriptor-relocated-behind-the-header',
          d.offset == 512 and d.min_length is None and d.data == b'',
          'C02 C01')
    check('pp/descriptor-length-clamped', d.length == want_len
          and d.length <= DESC_MAX, 'C05 C02')
    check('pp/memory-bound', 512 + d.length + 1536 <= 1536 * 1024, 'C05')
    check('pp/header-kept', insp.region('header').data is hdr, 'C01')
    # idempotence: the same call again changes nothing
    snap = [(n, r) for n, r in insp._capture_regions.items()]
    checks = list(insp._safety_checks.keys())
    insp.post_process()
    check('pp/idempotent', [(n, r) for n, r in insp._capture_regions.items()]
          == snap and list(insp._safety_checks.keys()) == checks, 'C01')


@proof(['C02'], targets=[(FI, 'VMDKInspector.check_footer'),
                         (FI, 'VMDKInspector._parse_sparse_header')])
def check_footer_contract():
    M = load(FI)
    insp, hdr = sparse_state(M, text_scan=False)
    # safety_check only runs the checks on a complete stream: the tail
    # window holds its full 1536 bytes
    F = fresh_bytes('footer', length=1536)
    fr = M.EndCaptureRegion(1536)
    fr.data = F
    insp.new_region('footer', fr)
    raised = None
    try:
        insp.check_footer()
    except M.SafetyViolation as e:
        raised = 'violation'
    except Exception as e:
        raised = e
    zero_pad_1 = F[16:512] == b'\x00' * 496
    zero_pad_2 = F[1040:1536] == b'\x00' * 496
    ok = conj(
        hdr[0:4] == F[512:516],
        le(hdr, 4, 4) == le(F, 516, 4),
        le(hdr, 28, 8) == le(F, 512 + 28, 8),
        le(hdr, 36, 8) == le(F, 512 + 36, 8),
        le(F, 512 + 56, 8) != GD_AT_END,
        le(F, 8, 4) == 0, le(F, 12, 4) == 3, zero_pad_1,
        le(F, 1024, 8) == 0, le(F, 1032, 4) == 0, le(F, 1036, 4) == 0,
        zero_pad_2)
    check('footer/passes-iff-footer-agrees-with-header-and-markers-valid',
          (raised is None) == ok)
    check('footer/only-safety-violations', raised is None
          or raised == 'violation')


@proof(['C07', 'C03', 'C01'],
       targets=[(FI, 'VMDKInspector.virtual_size'),
                (FI, 'VMDKInspector.format_match')])
def observers_contract():
    M = load(FI)
    insp, hdr = sparse_state(M, text_scan=False)
    parsed = pick('descriptor_parsed', ['no', 'empty', 'yes'])
    vt = pick('vmdktype', ['monolithicsparse', 'streamoptimized',
                           'monolithicflat', 'formatnotfound', 'vmfs'])
    if parsed == 'yes':
        insp.desc_text = 'createtype="%s"' % vt
        insp.vmdktype = vt
    elif parsed == 'empty':
        insp.desc_text = ''
        insp.vmdktype = vt
    has_header = pick('header_region_present', [True, False])
    if not has_header:
        insp.delete_region('header')
    size = insp.virtual_size
    supported = vt in ('monolithicsparse', 'streamoptimized')
    if parsed == 'yes' and supported and has_header:
        check('size/capacity-sectors-times-512',
              size == 512 * le(hdr, 12, 8), 'C07')
    else:
        check('size/zero-while-unknown-or-unsupported', size == 0, 'C07')
    m = insp.format_match
    if has_header:
        check('match/sparse-signature', m == (hdr[0:4] == b'KDMV'),
              'C03 C01')
    else:
        check('match/text-mode-iff-createtype-found',
              m == (insp.vmdktype != 'formatnotfound'), 'C03')
    fresh = M.VMDKInspector()
    fresh.delete_region('header')
    check('match/never-raises-before-any-descriptor',
          fresh.format_match == False and fresh.virtual_size == 0,  # noqa
          'C03 C07')


@proof(['C07', 'C01'], targets=[(FI, 'VMDKInspector.virtual_size')])
def size_unknown_until_the_sparse_header_is_captured():
    """The provisional descriptor region at offset 0 (min_length=4) may be
    parsed before the 64-byte sparse header is in: whatever it yielded, the
    capacity field has not been captured, so virtual_size is 0 - not a
    struct.error."""
    M = load(FI)
    insp = M.VMDKInspector()
    k = fresh_int('header_bytes_captured', 0, 63)
    insp.region('header').data = fresh_bytes('partial_header', length=k)
    vt = pick('vmdktype', ['monolithicsparse', 'streamoptimized',
                           'monolithicflat', 'formatnotfound'])
    parsed = pick('descriptor_parsed', ['no', 'yes'])
    if parsed == 'yes':
        insp.desc_text = 'kdmvcreatetype="%s"' % vt
        insp.vmdktype = vt
    check('size/zero-until-the-sparse-header-is-captured',
          insp.virtual_size == 0)


class Word:
    """The part of a line before a separator: opaque predicates."""

    def __init__(self, tag):
        self.tag = tag

    def __eq__(self, other):
        return fresh_bool('%s_is_%s' % (self.tag, other))

    def __hash__(self):
        return 0

    def __contains__(self, ch):
        return fresh_bool('%s_contains_%s' % (self.tag, ch.encode().hex()))


class Line:
    """A stripped descriptor line as a bundle of OPAQUE predicates (one
    boolean per question the code may ask): the proof holds for every
    interpretation of them, hence for real strings."""

    def __init__(self, tag):
        self.tag = tag

    def startswith(self, prefix):
        return fresh_bool('%s_startswith_%s' % (self.tag, prefix))

    def __bool__(self):
        return fresh_bool('%s_nonempty' % self.tag)

    def __len__(self):
        return 1 if fresh_bool('%s_nonempty' % self.tag) else 0

    def __contains__(self, ch):
        return fresh_bool('%s_contains_%s' % (self.tag, ch.encode().hex()))

    def split(self, sep):
        return [Word('%s_before_%s' % (self.tag, sep.encode().hex()))]


class RawLine:
    def __init__(self, stripped):
        self.stripped = stripped

    def strip(self):
        return self.stripped


class DescText:
    """desc_text as its list of lines (str.split('\\n') by contract)."""

    def __init__(self, lines):
        self.lines = lines

    def split(self, sep):
        return [RawLine(x) for x in self.lines]

    def __bool__(self):
        return True

    def __len__(self):
        return 1


def line_class(line):
    """Classification of one stripped descriptor line, from the property."""
    if line.startswith('#') or not line:
        return 'ignored'
    if line.startswith('ddb'):
        return 'ddb'
    if '=' in line and ' ' not in line.split('=')[0]:
        return 'field'
    if line.split(' ')[0] in ('rw', 'rdonly', 'noaccess'):
        return 'extent'
    return 'invalid'


@proof(['C02'], targets=[(FI, 'VMDKInspector.check_descriptor')],
       native=False,
       assumes=['descriptor lines are opaque predicate bundles; '
                'str.split("\\n") by contract on the line list'])
def check_descriptor_contract():
    M = load(FI)
    insp = M.VMDKInspector()
    n = pick('lines', [0, 1, 2] if tier() == 'quick' else [0, 1, 2, 3])
    lines = [Line('line%d' % i) for i in range(n)]
    state = pick('descriptor', ['missing', 'empty', 'present'])
    vt = pick('vmdktype', ['monolithicsparse', 'streamoptimized',
                           'monolithicflat', 'formatnotfound'])
    if state == 'missing':
        insp.desc_text = None
    elif state == 'empty':
        insp.desc_text = ''
    else:
        insp.desc_text = DescText(lines)
    insp.vmdktype = vt
    raised = None
    try:
        insp.check_descriptor()
    except M.SafetyViolation as e:
        raised = 'violation'
    except Exception as e:
        raised = e
    check('descriptor/only-safety-violations',
          raised is None or raised == 'violation')
    if state != 'present':
        check('descriptor/missing-descriptor-fails', raised == 'violation')
        return
    if vt not in ('monolithicsparse', 'streamoptimized'):
        check('descriptor/unsupported-type-fails', raised == 'violation')
        return
    classes = [line_class(x) for x in lines]
    extents = [x for x, c in zip(lines, classes) if c == 'extent']
    ok = ('invalid' not in classes and len(extents) > 0
          and not any(['/' in x for x in extents]))
    check('descriptor/passes-iff-every-line-recognised-some-extent-no-path',
          (raised is None) == ok)


@proof(['C02', 'C01'], targets=[(FI, 'VMDKInspector.region_complete'),
                                (FI, 'VMDKInspector._parse_descriptor')],
       native=False, assumes=['A-CODEC'])
def parse_descriptor_never_raises():
    """Whatever the descriptor region holds, region_complete returns (C03
    totality / C06: an inspector error would drop the format)."""
    M = load(FI)
    insp = M.VMDKInspector()
    d = M.CaptureRegion(512, 512)
    d.data = b'' if pick('empty', [False, True]) else pick(
        'descriptor_bytes',
        [b'createType="monolithicSparse"\nRW 1 SPARSE "x"\n\x00\x00',
         b'no type here', b'\xff\xfe binary', b'createType="' + b'x' * 80
         + b'"', b'createType="unterminated', b'\x00',
         b'CREATETYPE="StreamOptimized"',
         b'createType="monolithicSparse"\n# c\x00\nRW 1 SPARSE "x"\n\x00',
         b'# c\x00\ncreateType="streamOptimized"\n'])
    insp.delete_region('descriptor')
    insp.new_region('descriptor', d)
    insp.region_complete('descriptor')
    insp.region_complete('header')
    if isinstance(d.data, bytes) and b'\xff' not in d.data:
        # the text is what precedes the first NUL, lower-cased
        raw = d.data
        end = raw.find(b'\x00')
        want = (raw if end < 0 else raw[:end]).decode('ascii').lower()
        check('parse/text-ends-at-the-first-nul', insp.desc_text == want)
    check('parse/vmdktype-always-defined', isinstance(insp.vmdktype, str))
    if insp.desc_text:
        check('parse/text-is-lowercased', insp.desc_text
              == insp.desc_text.lower())


@proof(['C02', 'C01'], targets=[(FI, 'VMDKInspector._parse_descriptor')],
       native=False, assumes=['A-CODEC'])
def parse_descriptor_reads_the_text_before_the_first_nul():
    """For any descriptor bytes: the text handed to the checks is the ASCII
    decoding, lower-cased, of what precedes the first NUL (all of it when
    there is none); bytes that do not decode leave the state untouched."""
    M = load(FI)
    insp = M.VMDKInspector()
    n = fresh_int('descriptor_bytes', 0, 1 << 20)
    data = fresh_bytes('descriptor', length=n)
    end = fresh_int('first_nul_or_length', 0, n)
    assume(forall_int(0, end, lambda j: byte_at(data, j) != 0))
    assume(disj(end == n, byte_at(data, end) == 0))
    d = M.CaptureRegion(512, n)
    d.data = data
    insp.delete_region('descriptor')
    insp.new_region('descriptor', d)
    before = (insp.desc_text, insp.vmdktype)
    insp.region_complete('descriptor')
    try:
        want = data[0:end].decode('ascii').lower()
    except UnicodeDecodeError:
        want = None
    if want is None:
        check('parse/undecodable-bytes-change-nothing',
              (insp.desc_text, insp.vmdktype) == before)
    else:
        check('parse/text-is-the-lowercased-prefix-before-the-first-nul',
              insp.desc_text == want)


@proof(['C01', 'C07'], targets=[(FI, 'VMDKInspector._parse_descriptor')],
       native=False, assumes=['A-CODEC'])
def provisional_descriptor_of_a_sparse_image_names_no_type():
    """Before the sparse header is complete the provisional descriptor
    region at offset 0 holds the first x bytes of the stream (4 <= x <= 63,
    chunk dependent).  For a sparse image with an admissible version the
    second version byte is the NUL at index 5, so the text parsed from it
    is at most five characters and names no create type: vmdktype stays
    'formatnotfound', whatever x was."""
    M = load(FI)
    insp = M.VMDKInspector()
    x = fresh_int('provisional_bytes', 4, 63)
    data = fresh_bytes('stream_prefix', length=x)
    assume(data[0:4] == b'KDMV')
    if x >= 5:
        assume(data[4] >= 1, data[4] <= 3)
    if x >= 6:
        assume(data[5] == 0)
    insp.region('descriptor').data = data
    insp.region_complete('descriptor')
    check('provisional/no-create-type',
          insp.vmdktype == 'formatnotfound')
    check('provisional/size-stays-unknown', insp.virtual_size == 0)


# ---------------------------------------------------------------------------
# class-level induction for streams in the sparse class: shorter than the
# 64-byte sparse header, or starting with a sparse header the inspector
# admits (signature, version 1..3, descriptor at sector 1).  Everything else
# of length >= 64 is either rejected at the 64th byte or text-descriptor
# mode, which is the known finding F1.


def sparse_valid(S):
    return conj(len(S) >= 64, S[0:4] == b'KDMV', le(S, 4, 4) >= 1,
                le(S, 4, 4) <= 3, le(S, 28, 8) * 512 == 512)


def desc_size(S):
    n = le(S, 36, 8) * 512
    return n if n <= DESC_MAX else DESC_MAX


class Token:
    """An opaque str result (compared by identity only)."""

    def __init__(self, what):
        self.what = what


class ParsedDescriptor:
    """_parse_descriptor as a function of the bytes it is given (it reads
    region('descriptor').data only and writes desc_text / vmdktype only, or
    nothing when the bytes do not decode).  For the real descriptor of the
    stream S[512:512+desc_size] its outcome is one fixed unknown triple; for
    the provisional region at offset 0 of a sparse-valid stream the lemma
    provisional_descriptor_of_a_sparse_image_names_no_type gives
    'formatnotfound' with some text."""

    def __init__(self, tokens=True):
        self.decodes = fresh_bool('real_descriptor_decodes')
        if tokens:
            # opaque tokens: eat_chunk only stores the two results
            self.text = Token('real_descriptor_text')
            self.vtype = Token('real_descriptor_type')
        else:
            self.text = fresh_str('real_descriptor_text')
            self.vtype = fresh_str('real_descriptor_type')
        self.tokens = tokens

    def provisional(self, what, tag=''):
        """Some str left behind by a parse of the provisional region."""
        if self.tokens:
            return Token(what)
        return fresh_str(what + tag)


def vmdk_stub_parse(M, S, PD):
    def parse(self):
        d = self.region('descriptor')
        if d.offset == 0:
            check('step/provisional-parse-sees-a-stream-prefix',
                  d.data == S[0:len(d.data)] and len(d.data) >= 4)
            if fresh_bool('provisional_bytes_decode'):
                self.desc_text = Token('provisional_text')
                if sparse_valid(S):
                    self.vmdktype = 'formatnotfound'
                else:
                    self.vmdktype = Token('provisional_type')
            return
        check('step/parse-sees-the-whole-descriptor-of-the-stream',
              d.offset == 512 and d.data == S[512:512 + desc_size(S)])
        if PD.decodes:
            self.desc_text = PD.text
            self.vmdktype = PD.vtype
    stub(M, 'VMDKInspector._parse_descriptor', parse)


def vmdk_put_in_R(M, S, q, PD, tag=''):
    insp = M.VMDKInspector()
    insp._total_count = q
    if q < 64:
        insp.region('header').data = S[0:q]
        if q < 4:
            insp.region('descriptor').data = S[0:q]
        else:
            x = fresh_int('provisional_bytes' + tag, 4, q)
            insp.region('descriptor').data = S[0:x]
            if fresh_bool('provisional_parsed' + tag):
                insp.desc_text = PD.provisional('provisional_text', tag)
                if sparse_valid(S):
                    insp.vmdktype = 'formatnotfound'
                else:
                    insp.vmdktype = PD.provisional('provisional_type', tag)
        return insp
    assume(sparse_valid(S))
    h = fresh_int('header_bytes' + tag, 64, min(q, 512))
    insp.region('header').data = S[0:h]
    insp.delete_region('descriptor')
    if le(S, 56, 8) == GD_AT_END:
        f0 = fresh_int('footer_window_opened_at' + tag, 0, 63)
        f = M.EndCaptureRegion(1536)
        f.data = S[max(f0, q - 1536):q]
        f.offset = q - len(f.data)
        insp.ghost_footer_opened_at = f0
        insp.new_region('footer', f)
        insp.add_safety_check(M.SafetyCheck('footer', insp.check_footer))
    ds = desc_size(S)
    d = M.CaptureRegion(512, ds)
    d.data = S[512:min(q, 512 + ds)]
    insp.new_region('descriptor', d)
    # (a zero-length descriptor region is complete, and parsed, at once)
    if (ds == 0 or q >= 512 + ds) and PD.decodes:
        insp.desc_text = PD.text
        insp.vmdktype = PD.vtype
    elif fresh_bool('stale_provisional_text' + tag):
        insp.desc_text = PD.provisional('provisional_text', tag)
    return insp


def vmdk_check_R(insp, S, q, PD, tag, f0=None):
    M = load(FI)
    names = list(insp._capture_regions.keys())
    check(tag + '/position', insp._total_count == q)
    check(tag + '/not-finished', insp._finished == False)  # noqa
    hd = insp.region('header') if 'header' in names else None
    if q < 64:
        check(tag + '/before-the-header-is-in',
              names == ['header', 'descriptor'] and hd.data == S[0:q]
              and (hd.offset, hd.length, hd.min_length) == (0, 512, 64))
        d = insp.region('descriptor')
        x = len(d.data)
        check(tag + '/provisional-descriptor-holds-a-stream-prefix',
              (d.offset, d.length, d.min_length) == (0, DESC_MAX, 4)
              and d.data == S[0:x] and x <= q and (x == q or x >= 4))
        check(tag + '/provisional-type-of-a-sparse-image',
              implies(sparse_valid(S), insp.vmdktype == 'formatnotfound'))
        check(tag + '/checks-registered',
              list(insp._safety_checks.keys()) == ['descriptor'])
        return
    check(tag + '/sparse-class', sparse_valid(S))
    gd_end = le(S, 56, 8) == GD_AT_END
    check(tag + '/region-table',
          names == (['header', 'footer', 'descriptor'] if gd_end
                    else ['header', 'descriptor']))
    check(tag + '/checks-registered',
          list(insp._safety_checks.keys())
          == (['descriptor', 'footer'] if gd_end else ['descriptor']))
    h = len(hd.data)
    check(tag + '/header-holds-at-least-the-sparse-header',
          (hd.offset, hd.length, hd.min_length) == (0, 512, 64)
          and 64 <= h and h <= 512 and h <= q and hd.data == S[0:h])
    d = insp.region('descriptor')
    ds = desc_size(S)
    check(tag + '/descriptor-region-in-sync',
          d.offset == 512 and d.length == ds and d.min_length is None
          and d.data == S[512:min(q, 512 + ds)])
    if gd_end:
        f = insp.region('footer')
        check(tag + '/footer-window-is-the-stream-tail',
              isinstance(f, M.EndCaptureRegion) and f.length == 1536
              and 0 <= f0 and f0 <= 63
              and f.data == S[max(f0, q - 1536):q]
              and f.offset == q - len(f.data))
    if (ds == 0 or q >= 512 + ds) and PD.decodes:
        check(tag + '/descriptor-parsed-once-complete',
              insp.desc_text is PD.text and insp.vmdktype is PD.vtype)
    else:
        check(tag + '/no-create-type-before-the-descriptor-is-in',
              insp.vmdktype == 'formatnotfound')
    check(tag + '/memory-bound', 512 + ds + 1536 <= 1536 * 1024
          and sum(insp.context_info.values()) <= 512 + ds + 1536, 'C05')


VMDK_STEP_TARGETS = [(FI, 'FileInspector.eat_chunk'),
                     (FI, 'FileInspector._capture'),
                     (FI, 'CaptureRegion.capture'),
                     (FI, 'EndCaptureRegion.capture'),
                     (FI, 'VMDKInspector.post_process'),
                     (FI, 'VMDKInspector.region_complete'),
                     (FI, 'VMDKInspector._initialize')]
VMDK_STEP_ASSUMES = [
    '_parse_descriptor is used through its functional model (reads '
    'region(descriptor).data, writes desc_text/vmdktype or nothing); its '
    'provisional use on a sparse image through the lemma '
    'provisional_descriptor_of_a_sparse_image_names_no_type', 'A-CODEC',
    'str.isprintable/isspace uninterpreted',
    'streams of length >= 64 outside the sparse class are not covered '
    '(rejected at byte 64, or text-descriptor mode = known finding F1)']


def vmdk_step(phase, footer=None):
    """R_VMDK(S, p0) and chunk == S[p0:p]  ==>  the real eat_chunk(chunk)
    re-establishes R_VMDK(S, p) without raising.  (Split by phase, and by
    whether the header announces a footer, only to run the cases in
    parallel.)"""
    M = load(FI)
    S = fresh_bytes('S')
    p0 = fresh_int('p0', 0, len(S))
    p = fresh_int('p', p0, len(S))
    if phase == 'before':
        assume(p < 64)
    elif phase == 'crossing':
        assume(p0 < 64, p >= 64)
    else:
        assume(p0 >= 64)
    assume(disj(len(S) < 64, sparse_valid(S)))
    if footer is not None:
        assume((le(S, 56, 8) == GD_AT_END) == footer)
    PD = ParsedDescriptor()
    if phase == 'before':
        vmdk_check_R(M.VMDKInspector(), S, 0, PD, 'init')
    insp = vmdk_put_in_R(M, S, p0, PD)
    vmdk_stub_parse(M, S, PD)
    invariant(M, 'VMDKInspector.post_process', 0, lambda i, L: True,
              name='is_text-scan')
    insp.eat_chunk(S[p0:p])
    if phase == 'crossing' and p >= 512 + desc_size(S):
        cover('step/header-and-descriptor-arrive-in-one-chunk')
    if phase == 'after' and p0 < 512 + desc_size(S) \
            and p >= 512 + desc_size(S):
        cover('step/descriptor-completes-later')
    # ghost witness for the footer window: the start of the chunk that
    # completed the header
    f0 = p0 if phase == 'crossing' else getattr(
        insp, 'ghost_footer_opened_at', None)
    vmdk_check_R(insp, S, p, PD, 'step', f0)


@proof(['C01', 'C05', 'C02'], targets=VMDK_STEP_TARGETS, native=False,
       assumes=VMDK_STEP_ASSUMES)
def vmdk_sparse_step_before_the_header():
    vmdk_step('before')


@proof(['C01', 'C05', 'C02'], targets=VMDK_STEP_TARGETS, native=False,
       assumes=VMDK_STEP_ASSUMES)
def vmdk_sparse_step_completing_the_header():
    vmdk_step('crossing', footer=False)


@proof(['C01', 'C05', 'C02'], targets=VMDK_STEP_TARGETS, native=False,
       assumes=VMDK_STEP_ASSUMES)
def vmdk_sparse_step_completing_the_header_with_footer():
    vmdk_step('crossing', footer=True)


@proof(['C01', 'C05', 'C02'], targets=VMDK_STEP_TARGETS, native=False,
       assumes=VMDK_STEP_ASSUMES)
def vmdk_sparse_step_after_the_header():
    vmdk_step('after', footer=False)


@proof(['C01', 'C05', 'C02'], targets=VMDK_STEP_TARGETS, native=False,
       assumes=VMDK_STEP_ASSUMES)
def vmdk_sparse_step_after_the_header_with_footer():
    vmdk_step('after', footer=True)


@proof(['C01', 'C07', 'C03'],
       targets=[(FI, 'VMDKInspector.virtual_size'),
                (FI, 'VMDKInspector.format_match'),
                (FI, 'FileInspector.complete'),
                (FI, 'FileInspector.finish'),
                (FI, 'VMDKInspector.check_descriptor')], native=False,
       assumes=['check_descriptor / check_footer are functions of '
                '(desc_text, vmdktype) and (header[:64], footer window): '
                'check_descriptor_contract, check_footer_contract',
                'streams whose footer window opened less than 1536 bytes '
                'before the end are the known finding F3'])
def vmdk_sparse_state_is_a_function_of_the_stream():
    """Any two inspectors in R_VMDK(S, q) - whatever chunkings produced
    them (init + the three step proofs) - give the same verdict once
    finished: only the number of header bytes beyond the first 64, the text
    left over from the provisional region while no real descriptor has been
    parsed, and (F3) a footer window that opened late can differ."""
    M = load(FI)
    S = fresh_bytes('S')
    q = fresh_int('q', 0, len(S))
    assume(disj(len(S) < 64, sparse_valid(S)))
    PD = ParsedDescriptor(tokens=False)
    a = vmdk_put_in_R(M, S, q, PD, '_a')
    b = vmdk_put_in_R(M, S, q, PD, '_b')
    a.finish()
    b.finish()
    check('unique/format-match', a.format_match == b.format_match)
    check('unique/virtual-size', a.virtual_size == b.virtual_size)
    if q >= 64:
        check('unique/virtual-size-is-capacity-times-512-or-zero',
              a.virtual_size == 0
              or a.virtual_size == 512 * le(S, 12, 8), 'C07')
        ha = a.region('header').data
        hb = b.region('header').data
        check('unique/sparse-header', ha[0:64] == hb[0:64])
        check('unique/descriptor-bytes', a.region('descriptor').data
              == b.region('descriptor').data)
        check('unique/create-type', same(a.vmdktype, b.vmdktype))
        ds = desc_size(S)
        if (ds == 0 or q >= 512 + ds) and PD.decodes:
            check('unique/descriptor-text', same(a.desc_text, b.desc_text))
        else:
            # no descriptor parsed: whatever the provisional region left
            # behind, the descriptor check refuses
            for insp in (a, b):
                refused = False
                try:
                    insp.check_descriptor()
                except M.SafetyViolation:
                    refused = True
                check('unique/descriptor-check-refuses-without-a-'
                      'descriptor', refused)
        if a.has_region('footer') and q >= 1536 + 63:
            check('unique/footer-window', a.region('footer').data
                  == b.region('footer').data
                  and a.region('footer').complete
                  and b.region('footer').complete)
        check('unique/complete', a.complete == b.complete
              or (a.has_region('footer') and q < 1536 + 63))
    else:
        check('unique/short-stream-is-incomplete-and-sizeless',
              a.complete == False and b.complete == False  # noqa
              and a.virtual_size == 0)
    cover('unique/reached')


@proof(['C03', 'C01'], targets=[(FI, 'FileInspector.complete'),
                                (FI, 'VMDKInspector.format_match')],
       native=False)
def vmdk_sparse_decision_is_not_revised():
    """C03 no-revision for the VMDK sparse class: complete at q implies
    complete, with the same format_match and virtual_size, at every later
    position (the footer window only completes at EOF, so an image that
    announces a footer is never complete before the end)."""
    M = load(FI)
    S = fresh_bytes('S')
    q = fresh_int('q', 0, len(S))
    q1 = fresh_int('q_later', q, len(S))
    assume(disj(len(S) < 64, sparse_valid(S)))
    PD = ParsedDescriptor(tokens=False)
    a = vmdk_put_in_R(M, S, q, PD, '_a')
    if not a.complete:
        return
    b = vmdk_put_in_R(M, S, q1, PD, '_b')
    check('stable/complete-stays-complete', b.complete)
    check('stable/format-match-kept', b.format_match == a.format_match)
    check('stable/virtual-size-kept', b.virtual_size == a.virtual_size)
    check('stable/no-footer-announced', not a.has_region('footer'))
    cover('stable/reached')


CANARIES = [
    dict(name='vmdk-new-regions-do-not-see-the-current-chunk', prop='C01',
         file=FI, proofs=['vmdk_sparse_step_completing_the_header'],
         old="""            self._capture(chunk, only=[self.region_name(r)
                                       for r in new_regions])""",
         new="""            pass""", expect='step/'),
    dict(name='region-complete-never-fires', prop='C01', file=FI,
         proofs=['vmdk_sparse_step_after_the_header'],
         old="        for region in post_complete - pre_complete:",
         new="        for region in pre_complete - post_complete:",
         expect='step/descriptor-parsed'),
    dict(name='footer-window-one-sector-short', prop='C01', file=FI,
         proofs=['vmdk_sparse_step_completing_the_header_with_footer'],
         old="            self.new_region('footer', EndCaptureRegion(1536))",
         new="            self.new_region('footer', EndCaptureRegion(1024))",
         expect='step/footer'),
    dict(name='provisional-descriptor-kept', prop='C01', file=FI,
         proofs=['vmdk_sparse_step_completing_the_header'],
         old="        if self.region('descriptor').offset == 0:",
         new="        if self.region('descriptor').offset == 1:",
         expect='step/'),
    dict(name='desc-clamp-on-sectors', prop='C05', file=FI,
         proofs=['post_process_contract'],
         old='        desc_size = min(desc_num * 512, self.DESC_MAX_SIZE)',
         new='        desc_size = min(desc_num, self.DESC_MAX_SIZE) * 512',
         expect='pp/descriptor-length'),
    dict(name='version-4-admitted', prop='C02', file=FI,
         proofs=['post_process_contract'],
         old='        if ver not in (1, 2, 3):',
         new='        if ver not in (1, 2, 3, 4):', expect='pp/error-iff'),
    dict(name='footer-region-never-created', prop='C02', file=FI,
         proofs=['post_process_contract'],
         old="        if gdOffset == self.GD_AT_END and not self.has_region('footer'):",
         new="        if gdOffset == self.GD_AT_END and self.has_region('footer'):",
         expect='pp/footer'),
    dict(name='footer-marker-type-unchecked', prop='C02', file=FI,
         proofs=['check_footer_contract'],
         old='        if size != 0 or typ != self.MARKER_FOOTER or zero != pad:',
         new='        if size != 0 or zero != pad:', expect='footer/passes'),
    dict(name='footer-gd-at-end-accepted', prop='C02', file=FI,
         proofs=['check_footer_contract'],
         old='        if f_goff == self.GD_AT_END:',
         new='        if f_goff == 0:', expect='footer/passes'),
    dict(name='extent-path-test-dropped', prop='C02', file=FI,
         proofs=['check_descriptor_contract'],
         old="            if '/' in extent_line:", new="            if '\\\\' in extent_line:",
         expect='descriptor/passes'),
    dict(name='extent-access-mode-added', prop='C02', file=FI,
         proofs=['check_descriptor_contract'],
         old="        extent_access = ('rw', 'rdonly', 'noaccess')",
         new="        extent_access = ('rw', 'rdonly', 'noaccess', 'wronly')",
         expect='descriptor/passes'),
    dict(name='size-without-x512', prop='C07', file=FI,
         proofs=['observers_contract'], old='        return sectors * 512',
         new='        return sectors', expect='size/'),
]

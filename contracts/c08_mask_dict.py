"""C08 - mask_dict_password masks recursively and never modifies its argument.

Structural induction: the recursive call and mask_password are replaced by
their contracts (opaque functions MDP / MP that record their arguments), the
real body is proved (a) for a one-item mapping whose key is an ARBITRARY
string / non-string and whose value is of any kind - this is the loop body
for one item, with the 35 sanitize keys read from the module -, (b) for a
multi-item mapping (iteration, `continue`, one output entry per input entry),
(c) for non-dict Mapping types and non-mappings.  Depth and width are
therefore unbounded.  str.lower is an uninterpreted operator.
"""
import collections.abc

from pyvc.api import (proof, bounded, load, model, fresh_str, fresh_int, pick,
                      assume, check, implies, conj, disj, neg, same, rng)

SU = 'oslo_utils/strutils.py'

KEYS = ['adminpass', 'admin_pass', 'password', 'admin_password',
        'auth_token', 'new_pass', 'auth_password', 'secret_uuid', 'secret',
        'sys_pswd', 'token', 'configdrive', 'chappassword', 'encrypted_key',
        'private_key', 'fernetkey', 'sslkey', 'passphrase',
        'cephclusterfsid', 'octaviaheartbeatkey', 'rabbitcookie',
        'cephmanilaclientkey', 'pacemakerremoteauthkey', 'designaterndckey',
        'cephadminkey', 'heatauthencryptionkey', 'cephclientkey',
        'keystonecredential', 'barbicansimplecryptokek', 'cephrgwkey',
        'swifthashsuffix', 'migrationsshkey', 'cephmdskey', 'cephmonkey',
        'chapsecret']


class FrozenMap(collections.abc.Mapping):
    """A Mapping that is not a dict."""

    def __init__(self, pairs):
        self._pairs = list(pairs)

    def __getitem__(self, key):
        for k, v in self._pairs:
            if k == key:
                return v
        raise KeyError(key)

    def __iter__(self):
        return iter([k for k, _v in self._pairs])

    def __len__(self):
        return len(self._pairs)

    def items(self):
        return list(self._pairs)


class Marker:
    """Result of an abstracted callee: remembers what it was called with."""

    def __init__(self, kind, arg, secret):
        self.kind = kind
        self.arg = arg
        self.secret = secret


def abstract_callees(S):
    """mask_password (another public function, C04) is replaced by a marker;
    nested mappings are processed by the REAL code, however it recurses
    (through the public name, a closure, an explicit stack, ...)."""
    real = S.mask_dict_password

    def MP(message, secret='***'):
        return Marker('MP', message, secret)
    model(S, 'mask_password', MP)
    return real


def nested_ok(got, nested, secret):
    """got is what the property prescribes for the (concrete, flat) nested
    mapping: a new dict, same keys in order, masked / marked / identical
    values."""
    items = list(nested.items())
    if not (isinstance(got, dict) and got is not nested
            and list(got.keys()) == [k for k, _v in items]):
        return False
    for k, v in items:
        g = got[k]
        sensitive = isinstance(k, str) and any(
            [key in k.lower() for key in KEYS])
        if sensitive:
            ok = g == secret
        elif isinstance(v, str):
            ok = isinstance(g, Marker) and g.kind == 'MP' and g.arg is v \
                and g.secret == secret
        else:
            ok = g is v
        if not ok:
            return False
    return True


@proof('C08', targets=[(SU, '_SANITIZE_KEYS')])
def sanitize_key_list():
    S = load(SU)
    check('keys/every-documented-key-present',
          all([k in S._SANITIZE_KEYS for k in KEYS]))
    check('keys/lowercase', all([k == k.lower() for k in S._SANITIZE_KEYS]))
    check('keys/nothing-else', sorted(S._SANITIZE_KEYS) == sorted(KEYS))


@proof('C08', targets=[(SU, 'mask_dict_password')], native=False)
def one_item_any_key_any_value():
    S = load(SU)
    f = abstract_callees(S)
    kkind = pick('key_kind', ['str', 'int', 'tuple', 'bytes'])
    secret = pick('secret', ['***', '???'])
    if kkind == 'str':
        k = fresh_str('key')
    elif kkind == 'int':
        k = 7
    elif kkind == 'tuple':
        k = ('user', 'token')
    else:
        k = b'password'
    vkind = pick('value_kind', ['str', 'int', 'None', 'list', 'dict',
                                'empty-dict', 'frozenmap', 'bytes'])
    inner_list = ['password=x', 1]
    if vkind == 'str':
        v = fresh_str('value')
    elif vkind == 'int':
        v = fresh_int('value')
    elif vkind == 'None':
        v = None
    elif vkind == 'list':
        v = inner_list
    elif vkind == 'dict':
        v = {'password': 'pw', 'x': 1}
    elif vkind == 'empty-dict':
        v = {}
    elif vkind == 'frozenmap':
        v = FrozenMap([('token', 't')])
    else:
        v = b'password=x'
    container = pick('container', ['dict', 'frozenmap'])
    arg = {k: v} if container == 'dict' else FrozenMap([(k, v)])
    r = f(arg, secret)
    check('one/returns-a-new-dict', isinstance(r, dict) and r is not arg)
    check('one/same-keys', len(r) == 1 and list(r.keys())[0] is k)
    got = list(r.values())[0]
    is_mapping = vkind in ('dict', 'empty-dict', 'frozenmap')
    if is_mapping:
        check('one/nested-mapping-processed-recursively-with-same-secret',
              nested_ok(got, v, secret))
    else:
        if kkind == 'str':
            sensitive = disj([key in k.lower() for key in KEYS])
        else:
            sensitive = False
        if sensitive:
            check('one/sensitive-key-value-replaced-by-mask', got == secret)
        elif vkind == 'str':
            check('one/other-strings-go-through-mask_password',
                  isinstance(got, Marker) and got.kind == 'MP'
                  and got.arg is v and got.secret == secret)
        else:
            check('one/other-values-returned-as-they-are', got is v)
    # the argument is left as it was
    if container == 'dict':
        check('one/argument-dict-unmodified', len(arg) == 1
              and list(arg.keys())[0] is k and list(arg.values())[0] is v)
    else:
        check('one/argument-mapping-unmodified',
              len(arg._pairs) == 1 and arg._pairs[0][0] is k
              and arg._pairs[0][1] is v)
    check('one/list-value-untouched', inner_list == ['password=x', 1])
    if vkind == 'dict':
        check('one/nested-dict-untouched', v == {'password': 'pw', 'x': 1})


@proof('C08', targets=[(SU, 'mask_dict_password')], native=False)
def many_items_each_processed_once():
    S = load(SU)
    f = abstract_callees(S)
    nested = {'token': 'abc'}
    other = [1, 2]
    s1 = fresh_str('v1')
    s2 = fresh_str('v2')
    arg = {'Admin_Password2': s1, 'user': s2, 'nested': nested, 5: 'five',
           'other': other, 'my_secret_uuid': nested, ('password',): 's'}
    before_keys = list(arg.keys())
    before_vals = list(arg.values())
    r = f(arg)
    check('many/same-keys-in-order', list(r.keys()) == before_keys)
    check('many/sensitive-key', r['Admin_Password2'] == '***')
    check('many/plain-string', isinstance(r['user'], Marker)
          and r['user'].kind == 'MP' and r['user'].arg is s2)
    check('many/nested', nested_ok(r['nested'], nested, '***'))
    check('many/nested-under-sensitive-key-still-recursed',
          nested_ok(r['my_secret_uuid'], nested, '***')
          and r['my_secret_uuid'] is not r['nested'])
    check('many/int-key-string-value', isinstance(r[5], Marker)
          and r[5].kind == 'MP')
    check('many/non-string-key-never-sensitive',
          isinstance(r[('password',)], Marker)
          and r[('password',)].kind == 'MP')
    check('many/other-value-identical', r['other'] is other)
    check('many/argument-unmodified', list(arg.keys()) == before_keys
          and all([a is b for a, b in zip(arg.values(), before_vals)])
          and other == [1, 2] and nested == {'token': 'abc'})


@proof('C08', targets=[(SU, 'mask_dict_password')])
def non_mapping_raises_typeerror():
    S = load(SU)
    arg = pick('argument', [None, 5, 'password=x', b'x', ['a'], ('a', 'b'),
                            2.5])
    raised = None
    try:
        S.mask_dict_password(arg)
    except Exception as e:
        raised = e
    check('typeerror-for-non-mapping', isinstance(raised, TypeError))


@proof('C08', targets=[(SU, 'mask_dict_password')])
def empty_mapping_gives_new_empty_dict():
    S = load(SU)
    arg = {} if pick('container', ['dict', 'frozenmap']) == 'dict' \
        else FrozenMap([])
    r = S.mask_dict_password(arg)
    check('empty/new-empty-dict', isinstance(r, dict) and len(r) == 0
          and r is not arg)


@bounded('C08', targets=[(SU, 'mask_dict_password')],
         bound='nested mappings of depth <= 4 and width <= 4 (dict and a '
               'non-dict Mapping), keys: every sanitize key embedded in 4 '
               'case/position variants, near misses, int/tuple/bytes keys; '
               'values str/bytes/numbers/None/lists/mappings; 2 masks; 400 '
               'seeded trees; oracle written from the property')
def nested_mappings_family():
    import copy
    S = load(SU)
    r = rng()

    def oracle(m, secret):
        out = {}
        for k, v in m.items():
            if isinstance(v, collections.abc.Mapping):
                out[k] = oracle(v, secret)
            elif isinstance(k, str) and any(key in k.lower()
                                            for key in KEYS):
                out[k] = secret
            elif isinstance(v, str):
                out[k] = S.mask_password(v, secret)
            else:
                out[k] = v
        return out

    def key():
        c = r.random()
        if c < 0.45:
            base = r.choice(KEYS)
            form = r.choice([base, base.upper(), base.capitalize(),
                             'my_' + base + '2', base[:-1], base + 's'])
            return form
        if c < 0.7:
            return r.choice(['user', 'name', 'home-dir', 'pass', 'tok', ''])
        return r.choice([1, 0, ('user', 'token'), b'password', ('a',), 2.5,
                         None, True])

    def value(depth):
        c = r.random()
        if depth > 0 and c < 0.3:
            return tree(depth - 1)
        if c < 0.55:
            return r.choice(['plain', 'password=abc', "'token': 'xyz'",
                             '--password s3', '', 'x' * 5])
        return r.choice([b'password=x', 0, 1.5, None, ['password=l', 1],
                         ('t',), {}, FrozenMap([])])

    def tree(depth):
        pairs = []
        seen = set()
        for _ in range(r.randint(0, 4)):
            k = key()
            try:
                if k in seen:
                    continue
                seen.add(k)
            except TypeError:
                continue
            pairs.append((k, value(depth)))
        return dict(pairs) if r.random() < 0.7 else FrozenMap(pairs)

    def freeze(m):
        if isinstance(m, collections.abc.Mapping):
            return ('M', type(m).__name__,
                    tuple((repr(k), freeze(v)) for k, v in m.items()))
        return ('V', repr(m), id(m))
    for _ in range(400):
        m = tree(r.randint(0, 4))
        for secret in ('***', '???'):
            snap = freeze(m)
            got = S.mask_dict_password(m, secret)
            want = oracle(m, secret)
            check('family/result-matches-property', got == want
                  and type(got) is dict, detail=(repr(m)[:200], secret))
            check('family/argument-unmodified', freeze(m) == snap,
                  detail=repr(m)[:200])

            def fresh_dicts(a, b):
                if isinstance(b, collections.abc.Mapping):
                    if a is b:
                        return False
                    return all(fresh_dicts(a[k], v) for k, v in b.items())
                return True
            check('family/every-level-is-a-new-dict', fresh_dicts(got, m),
                  detail=repr(m)[:200])
    for bad in [None, 5, 'password=x', ['a'], ('a',), 2.5]:
        try:
            S.mask_dict_password(bad)
            exc = None
        except TypeError:
            exc = 'TypeError'
        except Exception as e:
            exc = type(e).__name__
        check('family/non-mapping-typeerror', exc == 'TypeError',
              detail=repr(bad))


CANARIES = [
    dict(name='key-match-without-lower', file=SU,
         proofs=['many_items_each_processed_once'],
         old='                if sani_key in k.lower():',
         new='                if sani_key in k:', expect='many/sensitive'),
    dict(name='recursion-drops-secret', file=SU,
         proofs=['one_item_any_key_any_value'],
         old='            out[k] = mask_dict_password(v, secret=secret)',
         new='            out[k] = mask_dict_password(v)', expect='one/nested'),
    dict(name='continue-dropped', file=SU,
         proofs=['many_items_each_processed_once'],
         old='            out[k] = mask_dict_password(v, secret=secret)\n            continue\n',
         new='            out[k] = mask_dict_password(v, secret=secret)\n',
         expect='many/'),
    dict(name='returns-argument-when-empty', file=SU,
         proofs=['empty_mapping_gives_new_empty_dict'],
         old='    out = {}\n    for k, v in dictionary.items():',
         new='    out = {}\n    if not dictionary:\n        return dictionary\n    for k, v in dictionary.items():',
         expect='empty/'),
]

# also: C02 C03 C05 C07
"""Bounded stand-in for the whole-stream clauses of C01/C02/C03/C05/C07 on the
REAL inspectors, in particular the two with pointer-located regions (VHDX,
VMDK) whose class-level induction is only partly under contract: images are
built from the format layouts, every field is mutated, and each stream is fed
under a family of chunkings (1 byte ... one chunk, cuts at +-1 of every
structure boundary, empty chunks interleaved, queries in between).  Oracles
are spec decoders written from the layouts (not the inspectors).

Labelled bounded; never counted as proved.
"""
import struct

from pyvc.api import bounded, load, check, rng, tier

FI = 'oslo_utils/imageutils/format_inspector.py'
CLI = 'oslo_utils/imageutils/cli.py'

P = 'C01 C02 C03 C05 C07'


def guid_le(text):
    import uuid
    return uuid.UUID(text).bytes_le


# ---------------------------------------------------------------------------
# builders


def build_vhdx(size=12345678, meta_off=1 << 20, item_off=65536, pad_regions=2,
               pad_items=1, item_len=8, total=None, regi=b'regi',
               meta_sig=b'metadata', region_count=None, item_count=None,
               with_vds=True, with_meta=True, ident=b'vhdxfile'):
    M = '8B7CA206-4790-4B9A-B8FE-575F050F886E'
    V = '2FA54224-CD1B-4876-B211-5DBED83BF4B8'
    OTHER = '2DC27766-F623-4200-9D64-115E9BFD4A08'
    H = 196608
    n = max(total or 0, H + 65536 + 64,
            (meta_off + max(item_off, 0) + 4096) if with_meta else 0)
    img = bytearray(n)
    img[0:len(ident)] = ident
    entries = [guid_le(OTHER) + struct.pack('<QII', 3 << 20, 1 << 20, 0)
               for _ in range(pad_regions)]
    if with_meta:
        entries.append(guid_le(M) + struct.pack('<QII', meta_off, 1 << 20, 1))
    cnt = len(entries) if region_count is None else region_count
    img[H:H + 16] = regi + struct.pack('<III', 0, cnt, 0)
    for i, e in enumerate(entries):
        img[H + 16 + 32 * i:H + 48 + 32 * i] = e
    if with_meta and meta_off + 65536 <= n:
        m = meta_off
        items = [guid_le(OTHER) + struct.pack('<III', 65536 + 64, 4, 0)
                 + bytes(4) for _ in range(pad_items)]
        if with_vds:
            items.append(guid_le(V) + struct.pack('<III', item_off, item_len,
                                                  0) + bytes(4))
        ic = len(items) if item_count is None else item_count
        img[m:m + 8] = meta_sig
        img[m + 10:m + 12] = struct.pack('<H', ic)
        for i, e in enumerate(items):
            img[m + 32 + 32 * i:m + 64 + 32 * i] = e
        if with_vds and 0 <= m + item_off and m + item_off + 8 <= n:
            img[m + item_off:m + item_off + 8] = struct.pack('<Q', size)
    return bytes(img)


def vhdx_oracle(S):
    """(match, complete, size, safety) or ('error',) from the layout."""
    n = len(S)
    H = 196608
    M = guid_le('8B7CA206-4790-4B9A-B8FE-575F050F886E')
    V = guid_le('2FA54224-CD1B-4876-B211-5DBED83BF4B8')
    match = S[0:8] == b'vhdxfile'
    if n < 32:
        return (match, False, 0)
    if n < H + 65536:
        return (match, False, 0)
    regi, _ck, count, _r = struct.unpack('<IIII', S[H:H + 16])
    if regi != 0x69676572 or count >= 2048:
        return ('error',)
    m = None
    for i in range(count):
        e = S[H + 16 + 32 * i:H + 48 + 32 * i]
        if e[:16] == M:
            m = struct.unpack('<Q', e[16:24])[0]
            break
    if m is None:
        return (match, True, 0)
    if m < H + 65536:
        return ('error',)
    have = max(0, min(n, m + 65536) - m)
    if have < 32:
        return (match, False, 0)
    if S[m:m + 8] != b'metadata':
        return ('error',)
    c = struct.unpack('<H', S[m + 10:m + 12])[0]
    if have < 32 + 32 * c:
        # table not (yet) buffered: the region just fills to 64 KiB (so a
        # count >= 2048 can never be examined)
        return (match, n >= m + 65536, 0)
    for j in range(c):
        e = S[m + 32 + 32 * j:m + 64 + 32 * j]
        if e[:16] == V:
            off, ln, _x = struct.unpack('<III', e[16:28])
            ln = min(ln, 65536)
            if off < 32 + 32 * c:
                return ('error',)
            v = m + off
            if n < v + ln:
                return (match, False, 0)
            if ln != 8:
                return ('size-error', match)
            return (match, True, struct.unpack('<Q', S[v:v + 8])[0])
    return (match, n >= m + 65536, 0)


def build_vmdk(capacity=20480, desc_sectors=1, desc_text=None, version=1,
               gd_at_end=False, desc_sec=1, total=None, sig=b'KDMV',
               footer=None, create_type='monolithicSparse', extents=None):
    if desc_text is None:
        ext = extents if extents is not None else [
            'RW 20480 SPARSE "disk.vmdk"']
        desc_text = ('# Disk DescriptorFile\nversion=1\nCID=fffffffe\n'
                     'parentCID=ffffffff\ncreateType="%s"\n\n'
                     '# Extent description\n%s\n\n'
                     '# The Disk Data Base\n#DDB\n\n'
                     'ddb.virtualHWVersion = "4"\n'
                     % (create_type, '\n'.join(ext)))
    gd = 0xffffffffffffffff if gd_at_end else 21
    hdr = struct.pack('<4sIIQQQQIQQ', sig, version, 3, capacity, 128,
                      desc_sec, desc_sectors, 512, 0, gd)
    img = bytearray(hdr.ljust(512, b'\x00'))
    d = desc_text.encode('ascii')
    img += d.ljust(max(512 * desc_sectors, 0), b'\x00')[:max(
        512 * desc_sectors, len(d))]
    img += bytes(2048)
    if gd_at_end:
        if footer is None:
            fhdr = struct.pack('<4sIIQQQQIQQ', sig, version, 3, capacity, 128,
                               desc_sec, desc_sectors, 512, 0, 21)
            footer = (struct.pack('<QII', 0, 0, 3) + bytes(496)
                      + fhdr.ljust(512, b'\x00')
                      + struct.pack('<QII', 0, 0, 0) + bytes(496))
        img += footer
    if total and total > len(img):
        img += bytes(total - len(img))
    return bytes(img)


def chunkings(n, cuts, r, extra_sizes=(1, 17, 512, 4096, 65536)):
    """Families of chunk-size lists summing to n."""
    out = [[n]]
    for cs in extra_sizes:
        if cs == 1 and n > 5000:
            continue
        if n // cs > 3000:
            continue
        out.append([cs] * (n // cs) + ([n % cs] if n % cs else []))
    cuts = sorted(set(c for c in cuts if 0 < c < n))
    for c in cuts:
        out.append([c, n - c])
        out.append([c, 0, n - c])
    scale = 1 if tier() == 'quick' else 8
    for _ in range(6 * scale):
        if len(cuts) >= 2:
            a, b = sorted(r.sample(cuts, 2))
            out.append([a, b - a, n - b])
    for _ in range(4 * scale):
        k = r.randint(2, 6)
        pts = sorted(r.randint(0, n) for _ in range(k))
        sizes = [b - a for a, b in zip([0] + pts, pts + [n])]
        out.append(sizes)
    return out


def observe(M, cls_name, S, sizes, bound, name, query_between=False):
    """Feed S to a fresh inspector in the given chunk sizes; returns the
    verdict tuple.  Checks the memory bound after every chunk."""
    insp = getattr(M, cls_name)()
    pos = 0
    err = None
    for k in sizes:
        try:
            insp.eat_chunk(S[pos:pos + k])
        except M.ImageFormatError as e:
            err = 'ImageFormatError'
            break
        except Exception as e:
            err = type(e).__name__
            break
        pos += k
        held = sum(insp.context_info.values())
        check('memory-bound-after-every-chunk', held <= bound, 'C05',
              detail=(name, sizes[:6], held))
        for rname, reg in insp._capture_regions.items():
            check('retained-bytes-are-the-stream-bytes',
                  reg.data == S[reg.offset:reg.offset + len(reg.data)],
                  'C01', detail=(name, rname, sizes[:6]))
        if query_between:
            insp.format_match
            insp.complete
            try:
                insp.virtual_size
            except Exception:
                pass
    if err is not None:
        return ('error', err)
    insp.finish()
    try:
        size = insp.virtual_size
    except Exception as e:
        size = 'raises ' + type(e).__name__
    try:
        insp.safety_check()
        safety = 'ok'
    except M.SafetyCheckFailed as e:
        safety = 'failed:' + ','.join(sorted(e.failures))
    except M.ImageFormatError:
        safety = 'refused'
    except Exception as e:
        safety = 'raises ' + type(e).__name__
    return (insp.format_match, insp.complete, size, safety)


@bounded(['C01', 'C05', 'C07', 'C02'],
         targets=[(FI, 'VHDXInspector.post_process'),
                  (FI, 'VHDXInspector._find_meta_region'),
                  (FI, 'VHDXInspector._find_meta_entry'),
                  (FI, 'VHDXInspector.virtual_size'),
                  (FI, 'VHDXInspector._guid'),
                  (FI, 'FileInspector.eat_chunk')],
         bound='34 VHDX images (sizes over the full field range, table entry '
               'orders/padding 0..2045, pointer placements incl. backward '
               'and boundary, count/length fields at 2047/2048/65535/2^32-1, '
               'bad signatures, truncations) x ~30 chunkings each incl. cuts '
               'at +-1 of every structure boundary and empty chunks')
def vhdx_family():
    M = load(FI)
    r = rng()
    BOUND = 512 * 1024
    H = 196608
    images = []
    for size in (0, 1, 12345678, (1 << 32) - 1, 1 << 32, 1 << 63,
                 (1 << 64) - 1):
        images.append(('size=%d' % size, build_vhdx(size=size)))
    images.append(('pad-regions-5', build_vhdx(pad_regions=5)))
    images.append(('pad-regions-2046', build_vhdx(pad_regions=2046)))
    images.append(('pad-items-40', build_vhdx(pad_items=40)))
    images.append(('pad-items-2045', build_vhdx(pad_items=2045,
                                               item_off=65536 + 128)))
    images.append(('pad-items-2046', build_vhdx(pad_items=2046,
                                               item_off=65536 + 128)))
    images.append(('meta-at-end-of-table', build_vhdx(meta_off=H + 65536)))
    images.append(('meta-backward', build_vhdx(meta_off=4096)))
    images.append(('meta-inside-header', build_vhdx(meta_off=H + 32768)))
    images.append(('meta-far', build_vhdx(meta_off=3 << 20)))
    images.append(('item-inside-table', build_vhdx(item_off=40)))
    images.append(('item-at-table-end', build_vhdx(item_off=96)))
    images.append(('item-near', build_vhdx(item_off=200)))
    images.append(('item-far', build_vhdx(item_off=500000)))
    images.append(('region-count-2047', build_vhdx(region_count=2047)))
    images.append(('region-count-2048', build_vhdx(region_count=2048)))
    images.append(('region-count-65535', build_vhdx(region_count=65535)))
    images.append(('item-count-2047', build_vhdx(item_count=2047)))
    images.append(('item-count-2048', build_vhdx(item_count=2048)))
    images.append(('item-count-65535', build_vhdx(item_count=65535)))
    images.append(('item-len-max', build_vhdx(item_len=(1 << 32) - 1,
                                             total=(2 << 20))))
    images.append(('item-len-2^31', build_vhdx(item_len=1 << 31,
                                               total=(2 << 20))))
    images.append(('bad-regi', build_vhdx(regi=b'regx')))
    images.append(('bad-metadata-sig', build_vhdx(meta_sig=b'metadatx')))
    images.append(('no-metaregion', build_vhdx(with_meta=False)))
    images.append(('no-vds-item', build_vhdx(with_vds=False)))
    images.append(('not-vhdx', build_vhdx(ident=b'vhdxfilx')))
    good = build_vhdx()
    for cut in (8, 31, 32, H, H + 16, H + 65535, H + 65536, (1 << 20) + 31,
                (1 << 20) + 96, (1 << 20) + 65536 + 7):
        images.append(('truncated-%d' % cut, good[:cut]))
    for name, S in images:
        n = len(S)
        want = vhdx_oracle(S)
        m = 1 << 20
        cuts = [8, 32, H - 1, H, H + 1, H + 16, H + 65535, H + 65536,
                H + 65537, m - 1, m, m + 1, m + 31, m + 32, m + 95, m + 96,
                m + 97, m + 65535, m + 65536, m + 65536 + 7, m + 65536 + 8,
                n - 1]
        results = {}
        for sizes in chunkings(n, cuts, r, extra_sizes=(512, 4096, 65536,
                                                        1 << 20)):
            got = observe(M, 'VHDXInspector', S, sizes, BOUND, name,
                          query_between=(len(sizes) % 2 == 0))
            results.setdefault(got, sizes)
        check('vhdx/verdict-independent-of-chunking', len(results) == 1,
              'C01', detail=(name, [(k, v[:5]) for k, v in
                                    list(results.items())[:3]]))
        for got in list(results):
          if want[0] == 'error':
            check('vhdx/malformed-image-is-an-error', got[0] == 'error'
                  or (got[1] is False and got[3] == 'refused'), 'C01 C02',
                  detail=(name, got))
          elif want[0] == 'size-error':
            pass
          else:
            if got[0] == 'error':
                check('vhdx/well-formed-image-is-not-an-error', False,
                      'C01 C07', detail=(name, got, results[got][:5]))
                continue
            check('vhdx/format-match', got[0] == want[0], 'C01 C03',
                  detail=(name, got, want))
            check('vhdx/complete', got[1] == want[1], 'C01',
                  detail=(name, got, want))
            check('vhdx/virtual-size-is-the-declared-size',
                  got[2] == want[2], 'C07 C01', detail=(name, got, want,
                                                       results[got][:5]))
            check('vhdx/safety', got[3] == ('ok' if (want[0] and want[1])
                                            else 'refused'), 'C02 C01',
                  detail=(name, got, want))
    # "0 while unknown": every prefix cut of a good image
    for cut in range(0, len(good), 37117):
        got = observe(M, 'VHDXInspector', good[:cut], [cut], BOUND,
                      'prefix-%d' % cut)
        want = vhdx_oracle(good[:cut])
        check('vhdx/size-zero-until-the-item-is-captured',
              got[0] == 'error' or got[2] == want[2], 'C07',
              detail=(cut, got, want))


def vmdk_oracle(S):
    n = len(S)
    if S[0:4] != b'KDMV':
        return ('not-sparse',)
    if n < 64:
        return (True, False, 0)
    (sig, ver, _f, cap, _g, dsec, dnum, _n, _r, gd) = struct.unpack(
        '<4sIIQQQQIQQ', S[:64])
    if ver not in (1, 2, 3) or dsec * 512 != 512:
        return ('error',)
    dlen = min(dnum * 512, (1 << 20) - 1)
    has_footer = gd == 0xffffffffffffffff
    if n < 512 + dlen:
        return (True, False, 0)
    raw = S[512:512 + dlen]
    if b'\x00' in raw:
        raw = raw[:raw.index(b'\x00')]
    try:
        text = raw.decode('ascii').lower()
    except UnicodeDecodeError:
        return (True, 'undecodable')
    i = text.find('createtype="')
    ctype = 'formatnotfound'
    if i >= 0:
        j = text.find('"', i + 12)
        if j - (i + 12) < 64:
            ctype = text[i + 12:j]
    supported = ctype in ('monolithicsparse', 'streamoptimized')
    size = cap * 512 if (text and supported) else 0
    fails = []
    ok_desc = bool(text) and supported
    if ok_desc:
        extents = []
        for line in [x.strip() for x in text.split('\n')]:
            if line.startswith('#') or not line:
                continue
            if line.startswith('ddb'):
                continue
            if '=' in line and ' ' not in line.split('=')[0]:
                continue
            if line.split(' ')[0] in ('rw', 'rdonly', 'noaccess'):
                extents.append(line)
                continue
            ok_desc = False
            break
        if ok_desc and (not extents or any('/' in e for e in extents)):
            ok_desc = False
    if not ok_desc:
        fails.append('descriptor')
    complete = True
    if has_footer:
        complete = n >= 1536 + 64       # see F3 for shorter streams
        f = S[-1536:]
        fh = struct.unpack('<4sIIQQQQIQQ', f[512:512 + 64])
        fm = struct.unpack('<QII496s', f[:512])
        em = struct.unpack('<QII496s', f[-512:])
        bad = (fh[0] != sig or fh[1] != ver or fh[5] != dsec
               or fh[6] != dnum or fh[9] == 0xffffffffffffffff
               or fm[1] != 0 or fm[2] != 3 or fm[3] != bytes(496)
               or em[0] != 0 or em[1] != 0 or em[2] != 0
               or em[3] != bytes(496))
        if bad:
            fails.append('footer')
    return (True, complete, size, fails)


@bounded(['C01', 'C05', 'C07', 'C02'],
         targets=[(FI, 'VMDKInspector.post_process'),
                  (FI, 'VMDKInspector.region_complete'),
                  (FI, 'VMDKInspector._parse_descriptor'),
                  (FI, 'VMDKInspector._parse_sparse_header'),
                  (FI, 'VMDKInspector.virtual_size'),
                  (FI, 'VMDKInspector.format_match'),
                  (FI, 'VMDKInspector.check_descriptor'),
                  (FI, 'VMDKInspector.check_footer')],
         bound='sparse-header VMDK images: capacities over the field range, '
               'versions 0..5, descriptor sector counts up to 2^64-1, '
               'createType spellings/cases, every descriptor line class, '
               'extents naming paths, footer field perturbations (streams >= '
               '1600 bytes) x ~35 chunkings each')
def vmdk_sparse_family():
    M = load(FI)
    r = rng()
    BOUND = 1536 * 1024
    images = []
    for cap in (0, 1, 20480, (1 << 32) - 1, 1 << 40, (1 << 55) - 1):
        images.append(('cap=%d' % cap, build_vmdk(capacity=cap)))
    for v in (0, 1, 2, 3, 4, 5, 0xffffffff):
        images.append(('version=%d' % v, build_vmdk(version=v)))
    for ds in (0, 1, 2, 8, 2047, 2048, 8192, 1 << 40, (1 << 64) - 1):
        images.append(('desc-sectors=%d' % ds,
                       build_vmdk(desc_sectors=ds if ds <= 8 else 1,
                                  total=1700000)
                       if ds <= 8 else
                       patch_desc_num(build_vmdk(total=1700000), ds)))
    for dsec in (0, 2, 1 << 40):
        images.append(('desc-sec=%d' % dsec, build_vmdk(desc_sec=dsec)))
    for ct in ('monolithicSparse', 'streamOptimized', 'MONOLITHICSPARSE',
               'monolithicFlat', 'vmfs', 'twoGbMaxExtentSparse', '',
               'x' * 70):
        images.append(('createType=%s' % ct[:12], build_vmdk(create_type=ct)))
    lines = ['RW 1 SPARSE "a.vmdk"', 'RDONLY 1 FLAT "b" 0',
             'NOACCESS 1 ZERO', 'RW 1 SPARSE "/etc/passwd"',
             'RW 1 SPARSE "../x"', 'WRITE 1 SPARSE "x"', 'rw', 'garbage here',
             'key=value', 'key =value', 'ddb.x = "1"', '# comment', '',
             'changeTrackPath="/x"']
    for ln in lines:
        images.append(('extent=%s' % ln[:14], build_vmdk(extents=[ln])))
        images.append(('extent+ok=%s' % ln[:14],
                       build_vmdk(extents=['RW 1 SPARSE "ok.vmdk"', ln])))
    images.append(('no-extents', build_vmdk(extents=[])))
    images.append(('two-sector-descriptor',
                   build_vmdk(desc_sectors=2, extents=[
                       'RW 1 SPARSE "%s.vmdk"' % ('p' * 600)])))
    images.append(('path-extent-in-second-sector',
                   build_vmdk(desc_sectors=2, extents=[
                       'RW 1 SPARSE "%s.vmdk"' % ('p' * 600),
                       'RW 1 SPARSE "/etc/shadow"'])))
    # the descriptor text ends at the FIRST NUL, whatever follows it
    images.append(('extent-only-after-an-embedded-nul', build_vmdk(
        desc_sectors=2, desc_text='createType="monolithicSparse"\n# c\x00'
        '\nRW 1 SPARSE "x.vmdk"\n')))
    images.append(('createtype-only-after-an-embedded-nul', build_vmdk(
        desc_sectors=2, desc_text='# c\x00\ncreateType="monolithicSparse"'
        '\nRW 1 SPARSE "x.vmdk"\n')))
    images.append(('unsafe-extent-after-an-embedded-nul', build_vmdk(
        desc_sectors=2, desc_text='createType="monolithicSparse"\n'
        'RW 1 SPARSE "x.vmdk"\n\x00RW 1 SPARSE "/etc/passwd"\n')))
    images.append(('descriptor-starting-with-nul', build_vmdk(
        desc_text='\x00createType="monolithicSparse"\nRW 1 SPARSE "x"\n')))
    good_so = build_vmdk(create_type='streamOptimized', gd_at_end=True)
    images.append(('stream-optimized-footer', good_so))

    def perturb(img, off_from_end, newbytes):
        b = bytearray(img)
        k = len(b) - off_from_end
        b[k:k + len(newbytes)] = newbytes
        return bytes(b)
    images.append(('footer-bad-sig', perturb(good_so, 1024, b'XDMV')))
    images.append(('footer-version', perturb(good_so, 1024 - 4,
                                             struct.pack('<I', 2))))
    images.append(('footer-desc-sec', perturb(good_so, 1024 - 28,
                                              struct.pack('<Q', 9))))
    images.append(('footer-desc-num', perturb(good_so, 1024 - 36,
                                              struct.pack('<Q', 9))))
    images.append(('footer-gd-at-end', perturb(good_so, 1024 - 56,
                                               b'\xff' * 8)))
    images.append(('footer-marker-type', perturb(good_so, 1536 - 12,
                                                 struct.pack('<I', 1))))
    images.append(('footer-marker-size', perturb(good_so, 1536 - 8,
                                                 struct.pack('<I', 1))))
    images.append(('footer-marker-pad', perturb(good_so, 1536 - 100, b'\x01')))
    images.append(('eos-val', perturb(good_so, 512, struct.pack('<Q', 1))))
    images.append(('eos-size', perturb(good_so, 512 - 8,
                                       struct.pack('<I', 1))))
    images.append(('eos-type', perturb(good_so, 512 - 12,
                                       struct.pack('<I', 3))))
    images.append(('eos-pad', perturb(good_so, 1, b'\x01')))
    images.append(('bad-signature-binary',
                   build_vmdk(sig=b'\xffDMV')))
    for cut in (4, 63, 64, 511, 512, 600, 1023, 1024, 1500):
        images.append(('truncated-%d' % cut, build_vmdk()[:cut]))
    for name, S in images:
        n = len(S)
        want = vmdk_oracle(S)
        if want[0] == 'not-sparse':
            continue
        cuts = [4, 63, 64, 65, 511, 512, 513, 1023, 1024, 1025, n - 1537,
                n - 1536, n - 1535, n - 1024, n - 512, n - 1]
        results = {}
        for sizes in chunkings(n, cuts, r, extra_sizes=(1, 17, 512, 4096,
                                                        65536)):
            if sizes and sizes[0] < 4 and n > 4:
                # a first chunk shorter than the provisional descriptor's
                # min_length (4) only delays the same processing
                pass
            got = observe(M, 'VMDKInspector', S, sizes, BOUND, name,
                          query_between=(len(sizes) % 3 == 0))
            results.setdefault(got, sizes)
        check('vmdk/verdict-independent-of-chunking', len(results) == 1,
              'C01', detail=(name, [(k, v[:5]) for k, v in
                                    list(results.items())[:3]]))
        for got in list(results):
            vmdk_compare(name, got, want, results[got][:5])


def vmdk_compare(name, got, want, sizes):
    if want[0] == 'error':
        check('vmdk/malformed-header-is-an-error', got[0] == 'error',
              'C01 C02', detail=(name, got))
        return
    if len(want) == 2:
        return
    if got[0] == 'error':
        check('vmdk/well-formed-image-is-not-an-error', False, 'C01 C07',
              detail=(name, got, sizes))
        return
    if len(want) == 3:
        check('vmdk/incomplete-stream', got[1] is False and got[2] == 0
              and got[3] == 'refused', 'C01 C02 C07',
              detail=(name, got, want, sizes))
        return
    match, complete, size, fails = want
    check('vmdk/format-match', got[0] == match, 'C01 C03',
          detail=(name, got, want))
    check('vmdk/complete', got[1] == complete, 'C01',
          detail=(name, got, want, sizes))
    check('vmdk/virtual-size-is-capacity-x-512', got[2] == size,
          'C07 C01', detail=(name, got, want, sizes))
    if complete:
        safety = 'ok' if not fails else 'failed:' + ','.join(sorted(fails))
        check('vmdk/safety', got[3] == safety, 'C02 C01',
              detail=(name, got, want, sizes))


def patch_desc_num(img, desc_num):
    b = bytearray(img)
    b[36:44] = struct.pack('<Q', desc_num)
    return bytes(b)


@bounded(['C01', 'C02'],
         targets=[(FI, 'VMDKInspector.post_process'),
                  (FI, 'FileInspector._capture')],
         bound='the two chunk-dependences of the pinned tree that are '
               'recorded as known findings (F1 text-descriptor mode, F3 '
               'footer on streams shorter than 1600 bytes): their witnesses, '
               'and the short sparse-signature stream repaired by 3ae0bbb')
def vmdk_known_chunk_dependences():
    M = load(FI)
    BOUND = 1536 * 1024
    # F1: text-only descriptor with an unsafe extent after byte 128
    text = ('# Disk DescriptorFile\nversion=1\ncreateType="monolithicSparse"'
            '\n' + '# pad\n' * 20 + 'RW 1 SPARSE "/etc/passwd"\n'
            + '# tail\n' * 60).encode()
    res = {}
    for sizes in ([len(text)], [16] * (len(text) // 16 + 1),
                  [64] * (len(text) // 64 + 1), [128] * (len(text) // 128 + 1),
                  [600, len(text)]):
        got = observe(M, 'VMDKInspector', text, sizes, BOUND, 'F1')
        res.setdefault(got, sizes[:3])
    check('vmdk/text-descriptor-verdict-independent-of-chunking',
          len(res) == 1, 'C01 C02',
          detail=sorted((str(k), v) for k, v in res.items()))
    # same provisional region, sparse signature: a stream that ends before
    # the 64-byte sparse header is in.  The provisional descriptor region
    # (min_length=4) holds whatever the first chunks delivered, but nothing
    # observable may depend on it (before fix 3ae0bbb virtual_size raised
    # struct.error for one chunking and returned 0 for another)
    short = b'KDMVcreatetype="monolithicsparse"\nrw 1 sparse "x"\n'
    res = {}
    for sizes in ([len(short)], [1] * len(short), [4, len(short)],
                  [33, len(short)]):
        got = observe(M, 'VMDKInspector', short, sizes, BOUND, 'F1b')
        res.setdefault(got, sizes[:3])
    check('vmdk/short-sparse-signature-stream-verdict-independent-of-'
          'chunking', len(res) == 1, 'C01',
          detail=sorted((str(k), v) for k, v in res.items()))
    # F3: footer-announcing stream of 1536..1598 bytes
    S = build_vmdk(create_type='streamOptimized', gd_at_end=True)
    short = S[:64] + S[len(S) - 1500:]
    res = {}
    for sizes in ([len(short)], [1] * len(short), [63, len(short) - 63],
                  [64, len(short) - 64]):
        got = observe(M, 'VMDKInspector', short, sizes, BOUND, 'F3')
        res.setdefault((got[1], got[3]), sizes[:3])
    check('vmdk/short-footer-stream-verdict-independent-of-chunking',
          len(res) == 1, 'C01',
          detail=sorted((str(k), v) for k, v in res.items()))


@bounded(['C01', 'C03', 'C02', 'C07'],
         targets=[(FI, 'InspectWrapper'), (FI, 'detect_file_format'),
                  (CLI, 'main')],
         bound='a valid image of each of the 10 formats + polyglots + text + '
               'hostile VMDK/VHDX through InspectWrapper (read sizes 1 KiB..1 '
               'MiB, decision sampled after every read), detect_file_format '
               'and the command-line checker on disk')
def wrapper_and_cli_family():
    import io
    import os
    import subprocess
    import sys
    import tempfile
    M = load(FI)
    r = rng()
    qcow = bytearray(1024)
    qcow[0:4] = b'QFI\xfb'
    qcow[4:8] = struct.pack('>I', 3)
    qcow[24:32] = struct.pack('>Q', 1 << 30)
    qcow_bf = bytearray(qcow)
    qcow_bf[8:16] = struct.pack('>Q', 1024)
    qcow_df = bytearray(qcow)
    qcow_df[79] = 4
    qcow_ft = bytearray(qcow)
    qcow_ft[79] = 16
    vhd = bytearray(1024)
    vhd[0:8] = b'conectix'
    vhd[40:48] = struct.pack('>Q', 5 << 20)
    vdi = bytearray(1024)
    vdi[0x40:0x44] = struct.pack('<I', 0xbeda107f)
    vdi[0x170:0x178] = struct.pack('<Q', 7 << 20)
    qed = bytearray(1024)
    qed[0:4] = b'QED\x00'
    iso = bytearray(40000)
    iso[32768] = 1
    iso[32769:32774] = b'CD001'
    iso[32768 + 80:32768 + 84] = struct.pack('<I', 100)
    iso[32768 + 128:32768 + 130] = struct.pack('<H', 2048)
    gpt = bytearray(2048)
    gpt[510:512] = b'\x55\xaa'
    gpt[446:462] = bytes([0, 0, 2, 0, 0xEE, 0xff, 0xff, 0xff]) + \
        struct.pack('<II', 1, 100)
    mbr = bytearray(gpt)
    mbr[446 + 4] = 0x83
    luks = bytearray(4096)
    luks[0:6] = b'LUKS\xba\xbe'
    luks[6:8] = struct.pack('>h', 1)
    luks[104:108] = struct.pack('>I', 4)
    luks2 = bytearray(luks)
    luks2[6:8] = struct.pack('>h', 2)
    cases = [
        ('raw-zero', bytes(70000), 'raw', 'ok'),
        ('raw-text', b'hello world\n' * 100, 'raw', 'ok'),
        ('qcow2', bytes(qcow), 'qcow2', 'ok'),
        ('qcow2-backing', bytes(qcow_bf), 'qcow2', 'failed'),
        ('qcow2-datafile', bytes(qcow_df), 'qcow2', 'failed'),
        ('qcow2-feature4', bytes(qcow_ft), 'qcow2', 'failed'),
        ('vhd', bytes(vhd), 'vhd', 'ok'),
        ('vdi', bytes(vdi), 'vdi', 'ok'),
        ('qed', bytes(qed), 'qed', 'failed'),
        ('iso', bytes(iso), 'iso', 'ok'),
        ('gpt', bytes(gpt), 'gpt', 'ok'),
        ('mbr', bytes(mbr), 'gpt', 'ok'),
        ('luks', bytes(luks), 'luks', 'ok'),
        ('luks2', bytes(luks2), 'luks', 'failed'),
        ('vhdx', build_vhdx(), 'vhdx', 'ok'),
        ('vmdk', build_vmdk(), 'vmdk', 'ok'),
        ('vmdk-path-extent',
         build_vmdk(extents=['RW 1 SPARSE "/etc/passwd"']), 'vmdk',
         'failed'),
        ('vmdk-misplaced-descriptor', build_vmdk(desc_sec=2), 'vmdk',
         'refused'),
        ('vmdk-bad-version', build_vmdk(version=9), 'vmdk', 'refused'),
        ('vmdk-flat-type', build_vmdk(create_type='monolithicFlat'),
         'vmdk', 'failed'),
        # (an inspector that raised ImageFormatError is dropped by the
        # wrapper but its regions so far are complete: the wrapper still
        # reports vhdx, and VHDX has no safety trait - observation, not one
        # of the properties)
        ('vhdx-backward-pointer', build_vhdx(meta_off=4096), 'vhdx', 'ok'),
        ('text-then-binary', b'a' * 600 + b'\xff' + b'b' * 100, 'raw', 'ok'),
    ]
    iso_qcow = bytearray(iso)
    iso_qcow[0:32] = qcow[0:32]
    cases.append(('polyglot-qcow2-iso', bytes(iso_qcow), 'AMBIGUOUS', None))
    gpt_qcow = bytearray(gpt)
    gpt_qcow[0:4] = b'QFI\xfb'
    cases.append(('polyglot-qcow2-gpt', bytes(gpt_qcow), 'AMBIGUOUS', None))
    d = tempfile.mkdtemp()
    try:
        for name, S, fmt, safety in cases:
            for rs in (1024, 4096, 70000, 1 << 20):
                w = M.InspectWrapper(io.BytesIO(S))
                decided = None
                out = bytearray()
                while True:
                    chunk = w.read(rs)
                    out += chunk
                    try:
                        f = w.format
                    except M.ImageFormatError:
                        f = 'ERR'
                    except Exception as e:
                        f = 'RAISES ' + type(e).__name__
                    if decided is None and f is not None:
                        decided = str(f)
                    elif decided is not None:
                        check('wrapper/decision-not-revised',
                              f is not None and str(f) == decided,
                              'C03', detail=(name, rs, decided, str(f)))
                    if not chunk:
                        break
                w.close()
                check('wrapper/bytes-passed-through', bytes(out) == S, 'C01',
                      detail=(name, rs))
                try:
                    final = str(w.format)
                except M.ImageFormatError:
                    final = 'AMBIGUOUS'
                except Exception as e:
                    final = 'RAISES ' + type(e).__name__
                check('wrapper/final-format', final == fmt, 'C03 C01',
                      detail=(name, rs, final, fmt))
            p = os.path.join(d, name)
            with open(p, 'wb') as f:
                f.write(S)
            try:
                det = M.detect_file_format(p)
                det_s = str(det)
            except M.ImageFormatError:
                det, det_s = None, 'AMBIGUOUS'
            except Exception as e:
                det, det_s = None, 'RAISES ' + type(e).__name__
            check('detect_file_format/result', det_s == fmt, 'C03',
                  detail=(name, det_s, fmt))
            env = dict(os.environ, PYTHONPATH=M.__file__.rsplit(
                '/oslo_utils/', 1)[0])
            rc = subprocess.run([sys.executable, '-m',
                                 'oslo_utils.imageutils', '-i', p],
                                capture_output=True, env=env).returncode
            check('cli/exit-0-only-when-detected-and-safe',
                  (rc == 0) == (safety == 'ok'), 'C02',
                  detail=(name, rc, safety))
    finally:
        import shutil
        shutil.rmtree(d, ignore_errors=True)

"""C02 - the command-line checker exits 0 only when detection and the safety
check both succeeded.

cli.main is proved as a control-flow contract: argparse / os.path / print are
abstract, format_inspector.detect_file_format and the returned inspector's
safety_check are HAVOC (each may return or raise anything of its contract).
Every way out of main() is enumerated: SystemExit(0) is reached only on the
path where the image exists, detect_file_format returned an inspector and
inspector.safety_check() returned normally.
"""
from pyvc.api import (proof, load, model, fresh_bool, pick, check, implies,
                      assume,
                      conj, disj, neg)

CLI = 'oslo_utils/imageutils/cli.py'


class _NS:
    pass


@proof('C02', targets=[(CLI, 'main')], native=False,
       assumes=['argparse/os.path/print abstract; SystemExit carries the '
                'exit status'])
def exit_status_contract():
    C = load(CLI)
    exists = fresh_bool('path_exists')
    isfile = fresh_bool('path_is_file')
    # os.path: a regular file exists
    assume(implies(isfile, exists))
    verbose = fresh_bool('verbose')
    detect = pick('detect_file_format', ['inspector', 'ImageFormatError',
                                         'OSError'])
    safety = pick('safety_check', ['ok', 'SafetyCheckFailed',
                                   'ImageFormatError', 'RuntimeError'])
    events = []

    class FI_ImageFormatError(Exception):
        pass

    class FI_SafetyCheckFailed(Exception):
        def __init__(self, failures):
            super().__init__('failed')
            self.failures = failures

    class Inspector:
        virtual_size = 10
        actual_size = 20

        def safety_check(self):
            events.append('safety_check')
            if safety == 'SafetyCheckFailed':
                raise FI_SafetyCheckFailed({'check': 'reason'})
            if safety == 'ImageFormatError':
                raise FI_ImageFormatError('incomplete')
            if safety == 'RuntimeError':
                raise RuntimeError('boom')

        def __str__(self):
            return 'qcow2'

    fi = _NS()
    fi.ImageFormatError = FI_ImageFormatError
    fi.SafetyCheckFailed = FI_SafetyCheckFailed

    def detect_file_format(path):
        events.append('detect')
        if detect == 'ImageFormatError':
            raise FI_ImageFormatError('ambiguous')
        if detect == 'OSError':
            raise OSError(13, 'denied')
        return Inspector()
    fi.detect_file_format = detect_file_format
    model(C, 'format_inspector', fi)
    args = _NS()
    args.image = '/some/image'
    args.verbose = verbose

    class Parser:
        def __init__(self, *a, **kw):
            pass

        def add_argument(self, *a, **kw):
            pass

        def parse_args(self):
            return args
    ap = _NS()
    ap.ArgumentParser = Parser
    ap.RawDescriptionHelpFormatter = None
    model(C, 'argparse', ap)
    osm = _NS()
    osm.path = _NS()
    osm.path.exists = lambda p: exists
    osm.path.isfile = lambda p: isfile
    model(C, 'os', osm)
    lg = _NS()
    lg.basicConfig = lambda **kw: None
    lg.CRITICAL = 50
    model(C, 'logging', lg)
    tw = _NS()
    tw.dedent = lambda s: s
    model(C, 'textwrap', tw)
    model(C, 'version_info', 'x.y.z')
    code = 'no-exit'
    other = None
    try:
        C.main()
    except SystemExit as e:
        code = e.code
    except BaseException as e:
        other = e
    good = conj(exists, isfile, detect == 'inspector', safety == 'ok')
    check('cli/exit-0-iff-detected-and-safe', (code == 0) == good)
    check('cli/exit-0-only-after-the-safety-check-ran',
          implies(code == 0, events == ['detect', 'safety_check']))
    check('cli/otherwise-nonzero-exit-or-propagated-error',
          implies(neg(good), disj(other is not None,
                                  code != 0 and code != 'no-exit')))
    check('cli/missing-image-is-exit-1-without-inspection',
          implies(neg(conj(exists, isfile)),
                  code == 1 and events == []))


CANARIES = [
    dict(name='cli-swallows-imageformaterror', prop='C02', file=CLI,
         proofs=['exit_status_contract'],
         old='    except format_inspector.SafetyCheckFailed as e:',
         new='    except format_inspector.ImageFormatError:\n        pass\n    except format_inspector.SafetyCheckFailed as e:',
         expect='cli/'),
    dict(name='cli-exit-0-when-unsafe', prop='C02', file=CLI,
         proofs=['exit_status_contract'],
         old="    if safe:\n        sys.exit(0)",
         new="    if safe or not verbose:\n        sys.exit(0)", expect='cli/'),
]

# also: C01 C03 C05 C07
"""C01/C02/C03/C05/C07 - the eight inspectors with a fixed region layout:
raw, qcow2, qed, vhd, vdi, iso, gpt, luks.

For each class F:

  R_F(insp, S, q)   abstraction relation: _total_count == q, not finished,
                    every region in sync with the stream S at position q
                    (contracts/c01_capture.py), derived state (qcow2's
                    qemu_header_info) equal to its spec value.

  init     F() establishes R_F(S, 0), the region table and the safety-check
           names equal the specified ones (C05: the lengths sum to the bound).
  step     R_F(S, p0) and chunk == S[p0:p]  ==>  after the real
           eat_chunk(chunk): R_F(S, p), no exception.  p0, p and len(chunk)
           are symbolic: one obligation set covers every chunking, empty
           chunks included.
  verdict  in any R_F(S, q) state, after finish(): format_match, complete,
           virtual_size and the safety_check() outcome equal the spec verdict
           written from the format layout (C02 iff-contracts per check, C03
           signatures + totality, C07 sizes over the full field range and
           "0 while the carrying structure is not captured").  The observers
           do not modify the inspector (queries in between, C01).

Each obligation is tagged with the properties it serves (name@C02,C07).
"""
from pyvc.api import (proof, load, fresh_int, fresh_bytes, pick, assume, check,
                      cover, same, implies, conj, disj, neg, be, le, ite)

FI = 'oslo_utils/imageutils/format_inspector.py'

ALL = 'C01 C02 C03 C05 C07'


def stream_and_chunk():
    S = fresh_bytes('S')
    p0 = fresh_int('p0', 0, len(S))
    p = fresh_int('p', p0, len(S))
    return S, p0, p


def in_sync(r, S, q):
    return r.data == S[r.offset:min(q, r.offset + r.length)]


# name -> (class name, [(region, offset, length)], [safety check names])
LAYOUT = {
    'raw': ('RawFileInspector', [], ['null']),
    'qcow2': ('QcowInspector', [('header', 0, 512)],
              ['backing_file', 'data_file', 'unknown_features']),
    'qed': ('QEDInspector', [('header', 0, 512)], ['banned']),
    'vhd': ('VHDInspector', [('header', 0, 512)], ['null']),
    'vdi': ('VDIInspector', [('header', 0, 512)], ['null']),
    'iso': ('ISOInspector', [('system_area', 0, 32768),
                             ('header', 32768, 2048)], ['null']),
    'gpt': ('GPTInspector', [('mbr', 0, 512)], ['mbr']),
    'luks': ('LUKSInspector', [('header', 0, 592)], ['version']),
}

# C05: bound on retained bytes for every format other than VMDK
BOUND_512K = 512 * 1024


def qcow_header_spec(S, q):
    """qemu_header_info as a function of the stream prefix S[:q]."""
    if q >= 512 and S[0:4] == b'QFI\xfb':
        return {'magic': b'QFI\xfb', 'version': be(S, 4, 4),
                'bf_offset': be(S, 8, 8), 'bf_sz': be(S, 16, 4),
                'cluster_bits': be(S, 20, 4), 'size': be(S, 24, 8)}
    return {}


def put_in_state(M, fmt, S, q):
    """A fresh inspector of format fmt forced into the state R_F(S, q)."""
    cname, regions, _checks = LAYOUT[fmt]
    insp = getattr(M, cname)()
    insp._total_count = q
    for (name, off, ln) in regions:
        r = insp.region(name)
        r.data = S[off:min(q, off + ln)]
    if fmt == 'qcow2':
        insp.qemu_header_info = qcow_header_spec(S, q)
    return insp


def check_R(fmt, insp, S, q, tag):
    cname, regions, checks = LAYOUT[fmt]
    check(tag + '/position', insp._total_count == q, ALL)
    check(tag + '/region-table',
          list(insp._capture_regions.keys()) == [n for (n, _o, _l)
                                                 in regions], ALL)
    total = 0
    for (name, off, ln) in regions:
        r = insp.region(name)
        check(tag + '/region-geometry', r.offset == off and r.length == ln
              and r.min_length is None, ALL)
        check(tag + '/region-in-sync', in_sync(r, S, q), 'C01 C02 C03 C07')
        check(tag + '/region-bounded', len(r.data) <= ln, 'C05')
        total = total + ln
    check(tag + '/memory-bound', total <= BOUND_512K
          and sum(insp.context_info.values()) <= total, 'C05')
    check(tag + '/safety-checks-registered',
          list(insp._safety_checks.keys()) == checks, 'C02')
    check(tag + '/not-finished', insp._finished == False, 'C01')  # noqa
    if fmt == 'qcow2':
        check(tag + '/qcow2-header-info',
              same(insp.qemu_header_info, qcow_header_spec(S, q)),
              'C01 C02 C03 C07')


# ---------------------------------------------------------------------------
# spec verdicts (written from the format layouts in the property statements)


def spec_match(fmt, S, q):
    if fmt == 'raw':
        return True
    if fmt == 'qcow2':
        return q >= 512 and S[0:4] == b'QFI\xfb'
    if fmt == 'qed':
        return q >= 512 and S[0:4] == b'QED\x00'
    if fmt == 'vhd':
        return q >= 8 and S[0:8] == b'conectix'
    if fmt == 'vdi':
        return q >= 512 and le(S, 0x40, 4) == 0xbeda107f
    if fmt == 'iso':
        if q < 32768 + 2048:
            return False
        sig = S[32769:32774]
        return sig == b'CD001' or sig == b'NSR02' or sig == b'NSR03'
    if fmt == 'gpt':
        return (q >= 512 and le(S, 510, 2) == 0xAA55
                and not (S[0x10] == 2 and S[0x15] == 0xF8))
    if fmt == 'luks':
        return q >= 6 and S[0:6] == b'LUKS\xba\xbe'


def spec_complete(fmt, q):
    cname, regions, _c = LAYOUT[fmt]
    end = 0
    for (_n, off, ln) in regions:
        end = max(end, off + ln)
    return q >= end


def spec_size(fmt, S, q, match):
    if fmt in ('raw', 'gpt', 'qed'):
        return q
    if fmt == 'qcow2':
        return be(S, 24, 8) if match else 0
    if fmt == 'vhd':
        return be(S, 40, 8) if (q >= 512 and match) else 0
    if fmt == 'vdi':
        return le(S, 0x170, 8) if match else 0
    if fmt == 'iso':
        if match and S[32768] == 1:
            return le(S, 32768 + 80, 4) * le(S, 32768 + 128, 2)
        return 0
    if fmt == 'luks':
        return q - 512 * be(S, 104, 4)


def spec_failures(fmt, S):
    """For a complete, matching stream: {check name: must it fail?}."""
    if fmt in ('raw', 'vhd', 'vdi', 'iso'):
        return {'null': False}
    if fmt == 'qed':
        return {'banned': True}
    if fmt == 'qcow2':
        v = be(S, 4, 4)
        feat = be(S, 72, 8)
        return {
            'backing_file': be(S, 8, 8) != 0,
            # incompatible-feature bit 2 (0x04 of the last byte)
            'data_file': (S[79] // 4) % 2 == 1,
            'unknown_features': conj(v != 2, disj(v != 3, feat >= 16)),
        }
    if fmt == 'luks':
        ver = be(S, 6, 2)
        return {'version': conj(ver != 1)}
    if fmt == 'gpt':
        boots = [S[446 + 16 * i] for i in range(4)]
        types = [S[446 + 16 * i + 4] for i in range(4)]
        bad_boot = disj([conj(b != 0, b != 0x80) for b in boots])
        bad_prot = disj([conj(types[i] == 0xEE,
                              disj(S[446 + 16 * i + 1] != 0,
                                   S[446 + 16 * i + 2] != 2,
                                   S[446 + 16 * i + 3] != 0,
                                   le(S, 446 + 16 * i + 8, 4) != 1))
                         for i in range(4)])
        any_prot = disj([t == 0xEE for t in types])
        only_first = conj(types[0] != 0, types[1] == 0, types[2] == 0,
                          types[3] == 0)
        none = conj([t == 0 for t in types])
        return {'mbr': disj(bad_boot, bad_prot,
                            conj(any_prot, neg(only_first)),
                            none)}


# ---------------------------------------------------------------------------


def init_proof(fmt):
    M = load(FI)
    S = fresh_bytes('S')
    insp = getattr(M, LAYOUT[fmt][0])()
    check_R(fmt, insp, S, 0, fmt + '/init')
    check(fmt + '/init/name', insp.NAME == fmt and str(insp) == fmt,
          'C03')
    check(fmt + '/init/registered-under-its-name',
          M.ALL_FORMATS[fmt] is getattr(M, LAYOUT[fmt][0]), 'C03')


def step_proof(fmt):
    M = load(FI)
    S, p0, p = stream_and_chunk()
    insp = put_in_state(M, fmt, S, p0)
    insp.eat_chunk(S[p0:p])
    check_R(fmt, insp, S, p, fmt + '/step')


def verdict_proof(fmt):
    M = load(FI)
    S = fresh_bytes('S')
    q = fresh_int('q', 0, len(S))
    insp = put_in_state(M, fmt, S, q)
    # finish() only sets a flag here (no tail regions in these classes); the
    # unfinished variant is explored for the cheap formats only
    if fmt in ('gpt', 'qcow2', 'iso') or pick('finished', [True, False]):
        insp.finish()

    def snap():
        return [insp._total_count, insp._finished,
                list(insp._capture_regions.keys()),
                [(r, r.offset, r.length, r.data, r.min_length)
                 for r in insp._capture_regions.values()],
                list(insp._safety_checks.keys()),
                getattr(insp, 'qemu_header_info', None)]
    before = snap()
    match = insp.format_match
    complete = insp.complete
    want_match = spec_match(fmt, S, q)
    check(fmt + '/format_match', match == want_match, 'C01 C02 C03')
    check(fmt + '/complete', complete == spec_complete(fmt, q),
          'C01 C02 C03')
    if fmt != 'luks' or q >= 108:
        size = insp.virtual_size
        check(fmt + '/virtual_size', size == spec_size(fmt, S, q, match),
              'C01 C07')
    try:
        insp.safety_check()
        outcome = 'ok'
        failed = []
    except M.SafetyCheckFailed as e:
        outcome = 'failed'
        failed = list(e.failures.keys())
        check(fmt + '/safety/failures-are-violations',
              all([isinstance(x, M.SafetyViolation)
                   for x in e.failures.values()]), 'C02')
    except M.ImageFormatError:
        outcome = 'refused'
    check(fmt + '/safety/refused-iff-incomplete-or-mismatch',
          (outcome == 'refused') == (not (complete and match)),
          'C01 C02')
    if outcome != 'refused':
        want = spec_failures(fmt, S)
        for name in LAYOUT[fmt][2]:
            check(fmt + '/safety/' + name + '-fails-iff-unsafe',
                  (name in failed) == want[name], 'C01 C02')
        check(fmt + '/safety/only-registered-checks-reported',
              all([n in LAYOUT[fmt][2] for n in failed]), 'C02')
        check(fmt + '/safety/ok-iff-no-check-failed',
              (outcome == 'ok') == (len(failed) == 0), 'C02')
    check(fmt + '/observers-are-pure', same(snap(), before), 'C01')


@proof(['C01', 'C02', 'C03', 'C05', 'C07'],
       targets=[(FI, 'RawFileInspector._initialize'),
                (FI, 'RawFileInspector.format_match'),
                (FI, 'FileInspector.virtual_size'),
                (FI, 'FileInspector.safety_check'),
                (FI, 'FileInspector.add_safety_check'),
                (FI, 'SafetyCheck.__init__'), (FI, 'SafetyCheck.__call__'),
                (FI, 'SafetyCheck.null')])
def raw_init():
    init_proof('raw')


@proof(['C01', 'C02', 'C03', 'C05', 'C07'], targets=[])
def raw_step():
    step_proof('raw')


@proof(['C01', 'C02', 'C03', 'C07'], targets=[])
def raw_verdict():
    verdict_proof('raw')


@proof(['C01', 'C02', 'C03', 'C05', 'C07'],
       targets=[(FI, 'QcowInspector._initialize')])
def qcow2_init():
    init_proof('qcow2')


@proof(['C01', 'C02', 'C03', 'C05', 'C07'],
       targets=[(FI, 'QcowInspector.region_complete')])
def qcow2_step():
    step_proof('qcow2')


@proof(['C01', 'C02', 'C03', 'C07'],
       targets=[(FI, 'QcowInspector.format_match'),
                (FI, 'QcowInspector.virtual_size'),
                (FI, 'QcowInspector.check_backing_file'),
                (FI, 'QcowInspector.check_data_file'),
                (FI, 'QcowInspector.check_unknown_features')])
def qcow2_verdict():
    verdict_proof('qcow2')


@proof(['C01', 'C02', 'C03', 'C05', 'C07'],
       targets=[(FI, 'QEDInspector._initialize'), (FI, 'SafetyCheck.banned')])
def qed_init():
    init_proof('qed')


@proof(['C01', 'C02', 'C03', 'C05', 'C07'], targets=[])
def qed_step():
    step_proof('qed')


@proof(['C01', 'C02', 'C03', 'C07'],
       targets=[(FI, 'QEDInspector.format_match')])
def qed_verdict():
    verdict_proof('qed')


@proof(['C01', 'C02', 'C03', 'C05', 'C07'],
       targets=[(FI, 'VHDInspector._initialize')])
def vhd_init():
    init_proof('vhd')


@proof(['C01', 'C02', 'C03', 'C05', 'C07'], targets=[])
def vhd_step():
    step_proof('vhd')


@proof(['C01', 'C02', 'C03', 'C07'],
       targets=[(FI, 'VHDInspector.format_match'),
                (FI, 'VHDInspector.virtual_size')])
def vhd_verdict():
    verdict_proof('vhd')


@proof(['C01', 'C02', 'C03', 'C05', 'C07'],
       targets=[(FI, 'VDIInspector._initialize')])
def vdi_init():
    init_proof('vdi')


@proof(['C01', 'C02', 'C03', 'C05', 'C07'], targets=[])
def vdi_step():
    step_proof('vdi')


@proof(['C01', 'C02', 'C03', 'C07'],
       targets=[(FI, 'VDIInspector.format_match'),
                (FI, 'VDIInspector.virtual_size')])
def vdi_verdict():
    verdict_proof('vdi')


@proof(['C01', 'C02', 'C03', 'C05', 'C07'],
       targets=[(FI, 'ISOInspector._initialize')])
def iso_init():
    init_proof('iso')


@proof(['C01', 'C02', 'C03', 'C05', 'C07'], targets=[])
def iso_step():
    step_proof('iso')


@proof(['C01', 'C02', 'C03', 'C07'],
       targets=[(FI, 'ISOInspector.format_match'),
                (FI, 'ISOInspector.virtual_size')])
def iso_verdict():
    verdict_proof('iso')


@proof(['C01', 'C02', 'C03', 'C05', 'C07'],
       targets=[(FI, 'GPTInspector._initialize')])
def gpt_init():
    init_proof('gpt')


@proof(['C01', 'C02', 'C03', 'C05', 'C07'], targets=[])
def gpt_step():
    step_proof('gpt')


@proof(['C01', 'C02', 'C03', 'C07'],
       targets=[(FI, 'GPTInspector.format_match'),
                (FI, 'GPTInspector._check_for_fat'),
                (FI, 'GPTInspector.check_mbr_partitions')])
def gpt_verdict():
    verdict_proof('gpt')


@proof(['C01', 'C02', 'C03', 'C05', 'C07'],
       targets=[(FI, 'LUKSInspector._initialize')])
def luks_init():
    init_proof('luks')


@proof(['C01', 'C02', 'C03', 'C05', 'C07'], targets=[])
def luks_step():
    step_proof('luks')


@proof(['C01', 'C02', 'C03', 'C07'],
       targets=[(FI, 'LUKSInspector.format_match'),
                (FI, 'LUKSInspector.header_items'),
                (FI, 'LUKSInspector.check_version'),
                (FI, 'LUKSInspector.virtual_size')])
def luks_verdict():
    verdict_proof('luks')


@proof(['C01', 'C07', 'C03'], targets=[(FI, 'FileInspector.__init__'),
                                        (FI, 'FileInspector.eat_chunk')])
def inspectors_do_not_share_state():
    """The verdict is a function of the bytes THIS inspector saw: feeding one
    instance leaves every other instance of the class - created before or
    after - in the state R_F(S', 0) of a fresh inspector (no class-level
    containers, no caches)."""
    M = load(FI)
    fmt = pick('format', sorted(LAYOUT))
    cname = LAYOUT[fmt][0]
    S = fresh_bytes('S')
    p = fresh_int('p', 0, len(S))
    older = getattr(M, cname)()
    fed = getattr(M, cname)()
    fed.eat_chunk(S[0:p])
    fed.finish()
    fed.format_match
    fed.virtual_size if (fmt != 'luks' or p >= 108) else None
    newer = getattr(M, cname)()
    other = fresh_bytes('another_stream')
    for who, insp in (('older', older), ('newer', newer)):
        check_R(fmt, insp, other, 0, fmt + '/isolated-' + who)
        check(fmt + '/isolated/fresh-verdict',
              insp.format_match == spec_match(fmt, other, 0)
              and insp.complete == spec_complete(fmt, 0))
        if fmt != 'luks':
            check(fmt + '/isolated/fresh-size', insp.virtual_size
                  == spec_size(fmt, other, 0, spec_match(fmt, other, 0)),
                  'C07')


@proof(['C03', 'C01'], targets=[(FI, 'FileInspector.complete')],
       assumes=['uses the spec verdicts that the verdict proofs tie to the '
                'real observers'])
def verdict_is_stable_once_complete():
    """C03 no-revision, per fixed-layout class: once complete at position q
    an inspector is complete at every later position and format_match keeps
    its value (so a decision of the wrapper cannot change)."""
    M = load(FI)
    fmt = pick('format', sorted(LAYOUT))
    S = fresh_bytes('S')
    q = fresh_int('q', 0, len(S))
    q1 = fresh_int('q_later', q, len(S))
    a = put_in_state(M, fmt, S, q)
    b = put_in_state(M, fmt, S, q1)
    if a.complete:
        check('stable/complete-stays-complete', b.complete)
        check('stable/format-match-kept', b.format_match == a.format_match)
        cover('stable/reached')


CANARIES = [
    dict(name='qcow2-max-feature-bit-raised', prop='C02', file=FI,
         proofs=['qcow2_verdict'], old='    I_FEATURES_MAX_BIT = 4\n',
         new='    I_FEATURES_MAX_BIT = 5\n',
         expect='unknown_features-fails-iff-unsafe'),
    dict(name='qcow2-small-backing-offsets-accepted', prop='C02', file=FI,
         proofs=['qcow2_verdict'], old='        if bf_offset != 0:',
         new='        if bf_offset > 0xFFFF:',
         expect='backing_file-fails-iff-unsafe'),
    dict(name='safety-check-completeness-gate-dropped', prop='C02', file=FI,
         proofs=['vhd_verdict'],
         old="        if not self.complete:\n            raise ImageFormatError(\n                _('Incomplete file cannot be safety checked'))",
         new="        if False:\n            raise ImageFormatError(\n                _('Incomplete file cannot be safety checked'))",
         expect='refused-iff'),
    dict(name='luks-version-zero-accepted', prop='C02', file=FI,
         proofs=['luks_verdict'], old="        if header['version'] != 1:",
         new="        if header['version'] > 1:", expect='version-fails-iff'),
    dict(name='vhd-size-little-endian', prop='C07', file=FI,
         proofs=['vhd_verdict'],
         old="struct.unpack('>Q', self.region('header').data[40:48])[0]",
         new="struct.unpack('<Q', self.region('header').data[40:48])[0]",
         expect='virtual_size'),
    dict(name='iso-descriptor-type-check-weakened', prop='C07', file=FI,
         proofs=['iso_verdict'], old='        if descriptor_type != 1:',
         new='        if descriptor_type == 0:', expect='virtual_size'),
    dict(name='vdi-signature-byte-order', prop='C03', file=FI,
         proofs=['vdi_verdict'], old='return signature == 0xbeda107f',
         new='return signature == 0x7f10dabe', expect='format_match'),
    dict(name='qed-signature-prefix-shortened', prop='C03', file=FI,
         proofs=['qed_verdict'], old="startswith(b'QED\\x00')",
         new="startswith(b'QED')", expect='format_match'),
    dict(name='iso-system-area-doubled', prop='C05', file=FI,
         proofs=['iso_init'],
         old="self.new_region('system_area', CaptureRegion(0, 32 * units.Ki))",
         new="self.new_region('system_area', CaptureRegion(0, 32 * units.Mi))",
         expect='region-geometry'),
]

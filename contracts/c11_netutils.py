# also: C15
"""C11 - address validators never raise and accept exactly well-formed values;
C15 - EUI-64 / host:port / URL helpers round-trip.

netaddr is a dependency, not verified here: in the proofs it is replaced by
its ASSUMED contract (A-NETADDR, `model(N, 'netaddr', ...)`): every netaddr
entry point may return any value of the right type or raise any of
AddrFormatError, ValueError, TypeError (the raise sets observed and checked
against the real netaddr by the bounded family below).  What is proved about
the real netutils code: for every str argument no exception escapes any
validator; the scope-id and prefix-presence logic; the integer range
validators exactly; the MAC pattern's language (regex lemma); the EUI-64 bit
arithmetic for all 2^48 MACs and all /64-or-shorter prefixes.
"""
from pyvc.api import (proof, bounded, load, model, fresh_str, fresh_int,
                      fresh_bits,
                      fresh_bool, pick, assume, check, implies, conj, disj,
                      neg, in_lang, re_lang, parses_as_int, int_of, strlen,
                      rng, unmodelled)

NU = 'oslo_utils/netutils.py'


class FakeNetaddr:
    """A-NETADDR: each call may raise AddrFormatError / ValueError /
    TypeError or return an unconstrained result."""

    def __init__(self, tag):
        self.tag = tag
        self.calls = []
        self.options = []
        self.seen = []
        self.n = 0

        class AddrFormatError(Exception):
            pass
        self.AddrFormatError = AddrFormatError
        self.core = self
        self.INET_PTON = 'INET_PTON'
        self.INET_ATON = 'INET_ATON'
        self.mac_unix_expanded = 'mac_unix_expanded'

    def _outcome(self, what, allow_type_error=True):
        self.n += 1
        self.calls.append(what)
        kinds = ['ok', 'AddrFormatError', 'ValueError']
        if allow_type_error:
            kinds.append('TypeError')
        k = pick('%s_outcome_%d' % (what, self.n), kinds)
        if k == 'AddrFormatError':
            raise self.AddrFormatError('bad address')
        if k == 'ValueError':
            raise ValueError('embedded null character')
        if k == 'TypeError':
            raise TypeError('unsupported type')

    # every entry point accepts any further arguments and records them: a
    # caller that switches on a parsing option (flags, expand_partial, ...)
    # no longer asks netaddr the documented question
    def valid_ipv4(self, addr, *args, **kw):
        self.options = self.options + [('valid_ipv4', args,
                                                        kw)]
        self._outcome('valid_ipv4', allow_type_error=False)
        return fresh_bool('valid_ipv4_result_%d' % self.n)

    def valid_ipv6(self, addr, *args, **kw):
        self.options = self.options + [('valid_ipv6', args,
                                                        kw)]
        self.seen = self.seen + [addr]
        self._outcome('valid_ipv6', allow_type_error=False)
        return fresh_bool('valid_ipv6_result_%d' % self.n)

    def IPNetwork(self, addr, *args, **kw):
        self.options = self.options + [('IPNetwork', args,
                                                        kw)]
        self._outcome('IPNetwork')
        return FakeNetwork(self)


class FakeNetwork:
    def __init__(self, na):
        self.na = na
        self.first = fresh_int('network_first_%d' % na.n, 0)

    @property
    def cidr(self):
        self.na._outcome('cidr', allow_type_error=False)
        return self


def with_fake_netaddr():
    N = load(NU)
    na = FakeNetaddr('na')
    model(N, 'netaddr', na)
    model(N, 'INET_PTON', 'INET_PTON')
    model(N, 'INET_ATON', 'INET_ATON')
    return N, na


@proof('C11', targets=[(NU, 'is_valid_ipv4'), (NU, 'is_valid_ipv6'),
                       (NU, 'is_valid_ip'), (NU, 'is_valid_cidr'),
                       (NU, 'is_valid_ipv6_cidr')], native=False,
       assumes=['A-NETADDR: netaddr entry points raise only AddrFormatError, '
                'ValueError or TypeError'])
def validators_never_raise_for_strings():
    N, na = with_fake_netaddr()
    s = fresh_str('address')
    which = pick('validator', ['ipv4', 'ipv4-loose', 'ipv6', 'ip', 'cidr',
                               'ipv6_cidr'])
    if which == 'ipv4':
        r = N.is_valid_ipv4(s)
    elif which == 'ipv4-loose':
        r = N.is_valid_ipv4(s, strict=False)
    elif which == 'ipv6':
        r = N.is_valid_ipv6(s)
    elif which == 'ip':
        r = N.is_valid_ip(s)
    elif which == 'cidr':
        r = N.is_valid_cidr(s)
    else:
        r = N.is_valid_ipv6_cidr(s)
    # reaching here on every path == no exception escaped
    check('validators/answer-is-a-boolean', r == True or r == False)  # noqa
    check('validators/empty-string-is-rejected',
          implies(strlen(s) == 0 and which in ('ipv4', 'ipv4-loose', 'ipv6',
                                               'ip'), r == False))  # noqa


@proof('C11', targets=[(NU, 'is_valid_ipv6')], native=False,
       assumes=['A-NETADDR', 'A-STDLIB-SPLIT: str.split / str.rsplit by '
                'contract on the list of %-separated parts'])
def ipv6_scope_id_rule():
    """The scope id is the text after the LAST '%' and must be 1..15
    characters; what precedes it is what netaddr judges."""
    N, na = with_fake_netaddr()
    nparts = pick('percent_separated_parts', [2, 3])
    parts = [fresh_str('part%d' % i) for i in range(nparts)]

    class Str:
        """A string given by its '%'-separated parts, with the contracts of
        str.split / str.rsplit for maxsplit=1."""

        def _join(self, ps):
            out = ps[0]
            for x in ps[1:]:
                out = out + '%' + x
            return out

        def rsplit(self, sep, maxsplit=-1):
            if sep != '%':
                unmodelled('rsplit(%r)' % (sep,))
            if maxsplit == 1:
                return [self._join(parts[:-1]), parts[-1]]
            if maxsplit == -1:
                return list(parts)
            unmodelled('rsplit maxsplit=%r' % (maxsplit,))

        def split(self, sep, maxsplit=-1):
            if sep != '%':
                unmodelled('split(%r)' % (sep,))
            if maxsplit == 1:
                return [parts[0], self._join(parts[1:])]
            if maxsplit == -1:
                return list(parts)
            unmodelled('split maxsplit=%r' % (maxsplit,))

        def rpartition(self, sep):
            if sep != '%':
                unmodelled('rpartition(%r)' % (sep,))
            return (self._join(parts[:-1]), '%', parts[-1])

        def partition(self, sep):
            if sep != '%':
                unmodelled('partition(%r)' % (sep,))
            return (parts[0], '%', self._join(parts[1:]))

        def __contains__(self, sub):
            if sub == '%':
                return True
            unmodelled('%r in address' % (sub,))

        def count(self, sub):
            if sub == '%':
                return len(parts) - 1
            unmodelled('count(%r)' % (sub,))

        def __bool__(self):
            return True

        def __len__(self):
            return 1
    joiner = Str()
    r = N.is_valid_ipv6(joiner)
    scope = parts[-1]
    n = strlen(scope)
    check('ipv6/scope-empty-or-longer-than-15-rejected',
          implies(disj(n < 1, n > 15), r == False))  # noqa: E712
    if r:
        check('ipv6/accepted-means-netaddr-judged-the-address-part',
              na.calls == ['valid_ipv6'])
        check('ipv6/address-part-is-everything-before-the-last-percent',
              len(na.seen) == 1
              and na.seen[0] == joiner._join(parts[:-1]))



@proof('C11', targets=[(NU, 'is_valid_cidr')], native=False,
       assumes=['A-NETADDR'])
def cidr_requires_a_nonempty_prefix_part():
    N, na = with_fake_netaddr()
    first = fresh_str('address_part')
    second = fresh_str('prefix_part')
    has_slash = pick('has_slash', [False, True])

    class Str:
        def split(self, sep):
            return [first, second] if has_slash else [first]
    r = N.is_valid_cidr(Str())
    if r:
        check('cidr/accepted-has-slash-and-nonempty-prefix',
              has_slash and strlen(second) > 0)
        check('cidr/accepted-was-parsed-by-netaddr',
              na.calls == ['IPNetwork'])
        # (spelling out a default - IPNetwork(addr, version=None) - is the
        # same question)
        defaults = {'version': None, 'flags': 0, 'expand_partial': False,
                    'implicit_prefix': False}
        asked = [(nm, tuple([x for x in args if x is not None]),
                  dict([(k, v) for k, v in kw.items()
                        if not (k in defaults and v == defaults[k])]))
                 for (nm, args, kw) in na.options]
        check('cidr/parsed-with-netaddr-defaults',
              asked == [('IPNetwork', (), {})])
    else:
        check('cidr/rejected', True)


@proof('C11', targets=[(NU, '_is_int_in_range'), (NU, 'is_valid_port'),
                       (NU, 'is_valid_icmp_type'),
                       (NU, 'is_valid_icmp_code')],
       assumes=['A-STDLIB-INT'])
def integer_range_validators():
    N = load(NU)
    which = pick('validator', ['port', 'icmp_type', 'icmp_code'])
    kind = pick('kind', ['int', 'str', 'None', 'float', 'list', 'bytes'])
    if kind == 'int':
        v = fresh_int('value')
    elif kind == 'str':
        v = fresh_str('value')
    elif kind == 'None':
        v = None
    elif kind == 'float':
        v = pick('float_value', [0.0, 255.9, 65535.5, -0.5, 256.0])
    elif kind == 'list':
        v = []
    else:
        v = b'80'
    hi = 65535 if which == 'port' else 255
    if which == 'port':
        r = N.is_valid_port(v)
    elif which == 'icmp_type':
        r = N.is_valid_icmp_type(v)
    else:
        r = N.is_valid_icmp_code(v)
    if kind == 'int':
        check('range/int-iff-in-range', r == conj(v >= 0, v <= hi))
    elif kind == 'str':
        if parses_as_int(v):
            n = int_of(v)
            check('range/str-iff-integer-in-range',
                  r == conj(n >= 0, n <= hi))
        else:
            check('range/non-numeric-string-rejected', r == False)  # noqa
    elif kind == 'None':
        check('range/none', r == (which == 'icmp_code'))
    elif kind == 'list':
        check('range/list-rejected', r == False)  # noqa: E712
    check('range/answers-a-boolean', r == True or r == False)  # noqa: E712


@proof('C11', targets=[(NU, 'is_valid_mac')], native=False,
       assumes=['str.lower uninterpreted; the pattern is translated from '
                'its CPython parse tree (regex.py)'])
def mac_pattern_language():
    """is_valid_mac(s) holds exactly when the lower-cased text is six
    colon-separated pairs of hex digits, nothing before, nothing after -
    however the function spells its regular expression (inline pattern,
    precompiled, match + \\Z or fullmatch)."""
    N = load(NU)
    x = fresh_str('address')
    r = N.is_valid_mac(x)
    spec = in_lang(x.lower(), re_lang('([0-9a-f]{2}:){5}[0-9a-f]{2}'))
    check('mac/accepts-only-six-hex-pairs', implies(bool(r), spec))
    check('mac/accepts-every-six-hex-pairs', implies(spec, bool(r)))


@proof('C11', targets=[(NU, 'is_valid_mac')])
def mac_non_strings_are_rejected():
    N = load(NU)
    v = pick('value', [None, 5, b'aa:bb:cc:dd:ee:ff', [], 1.5])
    r = N.is_valid_mac(v)
    check('mac/non-string-is-falsy', not r)


# ---------------------------------------------------------------------------
# C15: EUI-64


@proof('C15', targets=[(NU, 'get_ipv6_addr_by_EUI64'),
                       (NU, 'get_mac_addr_by_ipv6')], native=False,
       assumes=['A-NETADDR: EUI(mac).eui64() is mac[47:24] ff fe mac[23:0]; '
                'IPNetwork(prefix).first is the network address; '
                'IPAddress(n)/EUI(n) wrap the integer n'])
def eui64_round_trip():
    N = load(NU)
    mac = fresh_bits('mac', 48)
    net = fresh_bits('network_high_64_bits', 64)
    first = net * (1 << 64)            # prefix length <= 64: low 64 bits 0
    eui = ((mac // (1 << 24)) * (1 << 40) + 0xFFFE * (1 << 24)
           + mac % (1 << 24))

    class NA:
        mac_unix_expanded = 'dialect'

        class AddrFormatError(Exception):
            pass

        class EUIobj:
            def __init__(self, value, dialect=None):
                self.value = value

            def eui64(self):
                return NA.EUIobj(eui)

            def __int__(self):
                return self.value

        def EUI(self, value, dialect=None):
            return NA.EUIobj(value)

        class Net:
            pass

        def IPNetwork(self, p):
            n = NA.Net()
            n.first = first
            return n

        def IPAddress(self, n):
            return n

        def valid_ipv4(self, a, flags=0):
            return False
    na = NA()
    model(N, 'netaddr', na)
    model(N, 'INET_ATON', 0)
    addr = N.get_ipv6_addr_by_EUI64('2001:db8::/64', mac)
    check('eui64/network-part-kept', addr // (1 << 64) == net)
    low = addr % (1 << 64)
    # modified EUI-64: ff:fe inserted, universal/local bit (bit 57) inverted
    flipped = eui + (1 << 57) if (eui // (1 << 57)) % 2 == 0 \
        else eui - (1 << 57)
    check('eui64/interface-id-is-modified-eui64', low == flipped)
    back = N.get_mac_addr_by_ipv6(addr)
    check('eui64/mac-recovered', int(back) == mac)


@proof('C15', targets=[(NU, 'get_ipv6_addr_by_EUI64')], native=False,
       assumes=['A-NETADDR'])
def eui64_error_paths():
    N, na = with_fake_netaddr()
    kind = pick('prefix_kind', ['not-a-string', 'ipv4', 'other'])

    class NA2(FakeNetaddr):
        def EUI(self, mac):
            self._outcome('EUI')
            return self

        def eui64(self):
            return self

        def __int__(self):
            return 5

        def IPAddress(self, n):
            return n
    na2 = NA2('na2')
    model(N, 'netaddr', na2)
    raised = None
    if kind == 'not-a-string':
        prefix = pick('bad_prefix', [None, 5, b'fe80::', []])
    else:
        prefix = fresh_str('prefix')
    try:
        N.get_ipv6_addr_by_EUI64(prefix, '00:16:3e:33:44:55')
    except Exception as e:
        raised = e
    if kind == 'not-a-string':
        check('eui64/non-string-prefix-typeerror',
              isinstance(raised, TypeError))
    if raised is not None:
        check('eui64/only-valueerror-or-typeerror',
              isinstance(raised, (ValueError, TypeError)))


# ---------------------------------------------------------------------------
# bounded families against the real netaddr / ipaddress / urllib


@bounded('C11', targets=[(NU, 'is_valid_ipv4'), (NU, 'is_valid_ipv6'),
                         (NU, 'is_valid_ip'), (NU, 'is_valid_cidr'),
                         (NU, 'is_valid_ipv6_cidr'), (NU, 'is_valid_mac'),
                         (NU, 'is_valid_port')],
         bound='dotted quads 1..5 parts x 14 octet spellings; ipv6 group '
               'shapes x scope ids 0..17; cidr prefixes -1..129 + malformed; '
               'mac groups 5..7 x separators; ints around range ends; control '
               'characters; all code points for the lower() assumption')
def address_grammar_family():
    import ipaddress
    import itertools
    N = load(NU)
    r = rng()

    def never_raises(fn, s, name):
        try:
            return fn(s), None
        except Exception as e:
            check('family/%s-never-raises' % name, False,
                  detail=(repr(s), type(e).__name__))
            return None, e

    def std_v4(s):
        try:
            ipaddress.IPv4Address(s)
            return True
        except ValueError:
            return False

    def std_v6(s):
        try:
            ipaddress.IPv6Address(s)
            return True
        except ValueError:
            return False
    octets = ['0', '1', '9', '10', '99', '100', '255', '256', '300', '-1',
              '01', '0x1', '', ' 1', '1 ', '٣']
    quads = []
    for n in (1, 2, 3, 4, 5):
        for _ in range(60):
            quads.append('.'.join(r.choice(octets) for _ in range(n)))
    quads += ['1.2.3.4', '255.255.255.255', '0.0.0.0', '1.2.3.4\n',
              '1.2.3.4\x00', '1.2.3', '1.2.3.4.', '.1.2.3.4', '1..3.4']
    for s in quads:
        got, e = never_raises(N.is_valid_ipv4, s, 'ipv4')
        if e is None:
            leading_zero = any(len(p) > 1 and p[0] == '0'
                               for p in s.split('.'))
            if not leading_zero and s.isascii():
                check('family/ipv4-strict-agrees-with-ipaddress',
                      bool(got) == std_v4(s), detail=(s, got))
        never_raises(N.is_valid_ip, s, 'ip')
    groups = ['0', '1', 'ffff', 'FFFF', '10000', 'g', '', '00001', '1234']
    v6 = ['::', '::1', '1::', 'fe80::1', '2001:db8::8a2e:370:7334',
          '1:2:3:4:5:6:7:8', '1:2:3:4:5:6:7', '1:2:3:4:5:6:7:8:9',
          '::ffff:1.2.3.4', '::1.2.3.4', '1:2:3:4:5:6:1.2.3.4', ':::',
          '1::2::3', 'fe80::1\n', 'fe80::1\x00', '', ':', '::g']
    for n in range(1, 10):
        for _ in range(25):
            v6.append(':'.join(r.choice(groups) for _ in range(n)))
    for a in v6:
        got, e = never_raises(N.is_valid_ipv6, a, 'ipv6')
        if e is None and a.isascii() and '\n' not in a:
            check('family/ipv6-agrees-with-ipaddress',
                  bool(got) == std_v6(a), detail=(a, got))
        for k in range(0, 18):
            s = a + '%' + 'e' * k
            got, e = never_raises(N.is_valid_ipv6, s, 'ipv6')
            if e is None and a.isascii() and '\n' not in a:
                check('family/ipv6-scope-id-1-to-15',
                      bool(got) == (std_v6(a) and 1 <= k <= 15),
                      detail=(s, got))
    bases4 = ['10.0.0.0', '192.168.1.1', '1.2.3', '256.0.0.0', '',
              # abbreviated networks: not CIDR notation (ipaddress agrees)
              '10', '10.0', '192.168', '10.0.0', '010', '0x0a.0.0.0']
    bases6 = ['2001:db8::', '::', 'fe80::1', '1:2:3:4:5:6:7:8', 'g::']
    prefixes = [str(k) for k in range(-1, 34)] + ['64', '127', '128', '129',
                                                 '', ' ', '08', '+8', 'x',
                                                 '8/8', '/8', '255.0.0.0']
    for b in bases4 + bases6:
        for pfx in prefixes:
            s = b + '/' + pfx
            got, e = never_raises(N.is_valid_cidr, s, 'cidr')
            got6, e6 = never_raises(N.is_valid_ipv6_cidr, s, 'ipv6_cidr')
            if e is None and pfx.isdigit() and not (
                    len(pfx) > 1 and pfx[0] == '0'):
                try:
                    ipaddress.ip_network(s, strict=False)
                    std = True
                except ValueError:
                    std = False
                if ':' in b or b.count('.') <= 3:
                    check('family/cidr-agrees-with-ipaddress',
                          bool(got) == std, detail=(s, got))
        got, e = never_raises(N.is_valid_cidr, b, 'cidr')
        if e is None:
            check('family/cidr-without-prefix-rejected', not got, detail=b)
        got, e = never_raises(N.is_valid_cidr, b + '/', 'cidr')
        if e is None:
            check('family/cidr-with-empty-prefix-rejected', not got,
                  detail=b)
    hexp = ['00', 'ff', 'FF', 'a0', '0', '000', 'gg', '', 'Aa']
    for n in (5, 6, 7):
        for sep in (':', '-', '.', ''):
            for _ in range(40):
                s = sep.join(r.choice(hexp) for _ in range(n))
                got, e = never_raises(N.is_valid_mac, s, 'mac')
                want = (n == 6 and sep == ':' and all(
                    len(p) == 2 and all(c in '0123456789abcdefABCDEF'
                                        for c in p) for p in s.split(':')))
                if e is None:
                    check('family/mac-exactly-six-hex-pairs',
                          bool(got) == want, detail=(s, got))
    for s in ['aa:bb:cc:dd:ee:ff\n', '\naa:bb:cc:dd:ee:ff',
              'x aa:bb:cc:dd:ee:ff', 'aa:bb:cc:dd:ee:ff ',
              '525:54:00:cf:2d:31', '52:54:00:cf:2d:31:0a']:
        got, e = never_raises(N.is_valid_mac, s, 'mac')
        check('family/mac-junk-rejected', not got, detail=repr(s))
    # A-LOWER, exhaustively: no character outside the MAC alphabet lowers
    # into it
    alphabet = set('0123456789abcdef:')
    for c in range(0x110000):
        ch = chr(c)
        if ch in '0123456789abcdefABCDEF:':
            continue
        lo = ch.lower()
        if any(x in alphabet for x in lo):
            check('family/lower-maps-only-hex-letters-into-hex', False,
                  detail=(hex(c), lo))
    check('family/lower-maps-only-hex-letters-into-hex', True)
    for fn, hi, name in [(N.is_valid_port, 65535, 'port'),
                         (N.is_valid_icmp_type, 255, 'icmp_type'),
                         (N.is_valid_icmp_code, 255, 'icmp_code')]:
        for v in [-1, 0, 1, hi - 1, hi, hi + 1, 10 ** 9]:
            for form in (v, str(v), ' %d' % v, '%d ' % v, '+%d' % v):
                got, e = never_raises(fn, form, name)
                check('family/%s-range' % name, bool(got) == (0 <= v <= hi),
                      detail=(repr(form), got))
        for junk in ['', 'x', '1.5', '0x10', None, [], '٣', '1_0', b'1']:
            got, e = never_raises(fn, junk, name)
            want = (junk is None and name == 'icmp_code') or junk in (
                '٣', '1_0', b'1')
            check('family/%s-junk' % name, bool(got) == want,
                  detail=(repr(junk), got))


# ---------------------------------------------------------------------------
# C15: urlsplit / params against the assumed contract of urllib.parse


class SplitResultModel:
    """urllib.parse.SplitResult: a 5-field record with the namedtuple
    interface."""
    _fields = ('scheme', 'netloc', 'path', 'query', 'fragment')

    def __init__(self, scheme, netloc, path, query, fragment):
        self.scheme = scheme
        self.netloc = netloc
        self.path = path
        self.query = query
        self.fragment = fragment

    @classmethod
    def _make(cls, iterable):
        return cls(*list(iterable))

    def _replace(self, **kw):
        vals = dict([(f, getattr(self, f)) for f in self._fields])
        for k, v in kw.items():
            if k not in vals:
                unmodelled('_replace(%s=...)' % k)
            vals[k] = v
        return type(self)(*[vals[f] for f in self._fields])

    def _asdict(self):
        return dict([(f, getattr(self, f)) for f in self._fields])

    def __iter__(self):
        return iter([getattr(self, f) for f in self._fields])

    def __len__(self):
        return 5

    def __getitem__(self, i):
        return [getattr(self, f) for f in self._fields][i]


class FakeParse:
    """A-URLLIB: the contract assumed of urllib.parse.urlsplit."""

    def __init__(self, real):
        self.SplitResult = SplitResultModel
        self.calls = []

    def urlsplit(self, url, scheme='', allow_fragments=True):
        self.calls.append((url, scheme, allow_fragments))
        s, n, p, q, f = (fresh_str('std_scheme'), fresh_str('std_netloc'),
                         fresh_str('std_path'), fresh_str('std_query'),
                         fresh_str('std_fragment'))
        assume('?' not in p)
        if allow_fragments:
            assume('#' not in p)
        self.result = (s, n, p, q, f)
        return self.result


@proof('C15', targets=[(NU, 'urlsplit')], native=False,
       assumes=['A-URLLIB: urllib.parse.urlsplit returns five strings, its '
                'path holds no "?" and, when allow_fragments, no "#"; '
                'SplitResult is a five-field record'])
def urlsplit_agrees_with_the_standard_library():
    N = load(NU)
    fake = FakeParse(N.parse)
    model(N, 'parse', fake)

    class Rebased(SplitResultModel):
        # the real class body on the model of its stdlib base
        params = N._ModifiedSplitResult.params
    model(N, '_ModifiedSplitResult', Rebased)
    url = fresh_str('url')
    scheme = fresh_str('scheme')
    af = fresh_bool('allow_fragments')
    r = N.urlsplit(url, scheme, af)
    check('urlsplit/arguments-passed-through', fake.calls == [(url, scheme, af)])
    s, n, p, q, f = fake.result
    check('urlsplit/components', r.scheme == s and r.netloc == n and r.path == p
          and r.query == q and r.fragment == f)


@proof('C15', targets=[(NU, '_ModifiedSplitResult.params')], native=False,
       assumes=['A-URLLIB: parse_qsl returns a list of (name, value) pairs; '
                'proved for 0..3 pairs with arbitrary coincidences of names'])
def params_collects_last_or_all_values():
    N = load(NU)
    fake = FakeParse(N.parse)
    n = pick('pairs', [0, 1, 2, 3])
    pairs = [(fresh_str('name%d' % i), fresh_str('value%d' % i))
             for i in range(n)]
    seen = []

    def parse_qsl(q):
        seen.append(q)
        return list(pairs)
    fake.parse_qsl = parse_qsl
    model(N, 'parse', fake)

    class Rebased(SplitResultModel):
        params = N._ModifiedSplitResult.params
    query = fresh_str('query')
    r = Rebased(fresh_str('s'), fresh_str('n'), fresh_str('p'), query,
                fresh_str('f'))
    collapse = pick('collapse', ['default', True, False])
    got = r.params() if collapse == 'default' else r.params(collapse)
    if query == '':
        check('params/empty-query-no-parameters', got == {} and seen == [])
        return
    check('params/parses-the-query-once', seen == [query])
    names = []
    for k, _v in pairs:
        if not any([k == x for x in names]):
            names.append(k)
    check('params/one-entry-per-name', len(got) == len(names)
          and all([k in got for k in names]))
    for k in names:
        vals = [v for (kk, v) in pairs if kk == k]
        if collapse is False:
            if len(vals) == 1:
                check('params/single-value-kept-bare', got[k] == vals[0])
            else:
                check('params/all-values-in-order', got[k] == vals)
        else:
            check('params/last-value-wins', got[k] == vals[-1])


@bounded('C15', targets=[(NU, 'get_ipv6_addr_by_EUI64'),
                         (NU, 'get_mac_addr_by_ipv6'),
                         (NU, 'parse_host_port'), (NU, 'escape_ipv6'),
                         (NU, 'urlsplit'), (NU, '_ModifiedSplitResult.params')],
         bound='boundary + 300 random MACs x 9 prefixes (with host bits); '
               '3 host families x ports {0,1,80,65535} x defaults; 200 URLs '
               'x allow_fragments; error inputs')
def eui64_hostport_url_family():
    import ipaddress
    import netaddr
    from urllib import parse
    N = load(NU)
    r = rng()
    macs = [0, 1, (1 << 48) - 1, 1 << 47, 1 << 41, 0x020000000000,
            0x00163e334455, 0xfffffffffffe, 0x0000000000ff]
    macs += [r.getrandbits(48) for _ in range(300)]
    prefixes = ['2001:db8::/64', 'fe80::/64', '2001:db8::', 'fe80::/10',
                '2001:db8:0:1::5/64', 'fe80::1/10', '2001:db8:1:2::/48',
                '::/0', 'ffff:ffff:ffff:ffff::/64']
    for m in macs:
        mac = ':'.join('%02x' % ((m >> s) & 0xff)
                       for s in range(40, -8, -8))
        for p in prefixes:
            net = ipaddress.ip_network(p, strict=False)
            if net.prefixlen > 64 and '/' in p:
                continue
            got = N.get_ipv6_addr_by_EUI64(p, mac)
            iid = ((m >> 24) << 40 | 0xFFFE << 24 | (m & 0xFFFFFF)) ^ (
                1 << 57)
            base = int(net.network_address) if '/' in p else int(
                ipaddress.IPv6Address(p))
            want = ipaddress.IPv6Address((base & ~((1 << 64) - 1)) | iid)
            check('eui64-family/address', str(got) == str(want),
                  detail=(p, mac, str(got), str(want)))
            back = N.get_mac_addr_by_ipv6(netaddr.IPAddress(str(want)))
            check('eui64-family/mac-recovered', int(back) == m,
                  detail=(p, mac, str(back)))
    for p, mac in [('1.2.3.4', '00:16:3e:33:44:55'), ('1.2.3', 'aa' * 6),
                   ('nonsense/64', '00:16:3e:33:44:55'),
                   ('fe80::', 'zz:16:3e:33:44:55'), ('fe80::', ''),
                   (None, '00:16:3e:33:44:55'), (5, '00:16:3e:33:44:55'),
                   ('fe80::', None), ('fe80::/200', '00:16:3e:33:44:55')]:
        try:
            N.get_ipv6_addr_by_EUI64(p, mac)
            exc = None
        except (ValueError, TypeError):
            exc = 'ok'
        except Exception as e:
            exc = type(e).__name__
        check('eui64-family/bad-input-valueerror-or-typeerror', exc == 'ok',
              detail=(p, mac, exc))
    hosts = ['server01', 'a.b.example.org', 'localhost', '10.0.0.1',
             '255.255.255.255', '::1', '2001:db8:85a3::8a2e:370:7334',
             'fe80::1%eth0', 'fe80::1%1', '::ffff:1.2.3.4',
             'fe80::1%abcdefghijklmno', 'fe80::1%abcdefghijklmn',
             'fe80::2%e', '::', 'x', '0.0.0.0']
    for h in hosts:
        for port in (0, 1, 80, 8080, 65535):
            got = N.parse_host_port(N.escape_ipv6(h) + ':' + str(port))
            check('hostport-family/round-trip', got == (h, port),
                  detail=(h, port, got))
            got = N.parse_host_port(N.escape_ipv6(h) + ':' + str(port),
                                    default_port=1)
            check('hostport-family/explicit-port-wins', got == (h, port),
                  detail=(h, port, got))
        for d in (None, 0, 1, 1234, 65535):
            got = N.parse_host_port(N.escape_ipv6(h), default_port=d)
            check('hostport-family/default-port', got == (h, d),
                  detail=(h, d, got))
            got = N.parse_host_port(h, default_port=d)
            check('hostport-family/unescaped-host-default-port',
                  got == (h, d), detail=(h, d, got))
    check('hostport-family/none', N.parse_host_port(None) == (None, None)
          and N.parse_host_port('') == (None, None))
    schemes = ['http', 'https', 'ftp', 'rabbit', '']
    netlocs = ['h', 'h:80', 'u:p@h:80', '[::1]', '[::1]:8080', 'u@[fe80::1]',
               '']
    paths = ['', '/', '/p', '/p/q', '/p;x', '/a b']
    queries = ['', 'a=1', 'a=1&a=2', 'a=1&b=2&a=3', 'a=&b', 'a=1;b=2',
               'x=%41&x=+']
    frags = ['', 'f', 'f?q', 'f#g']
    n = 0
    for sc, nl, pa, qu, fr in itertools_product(schemes, netlocs, paths,
                                                queries, frags):
        n += 1
        if n % 7 and n % 11:
            continue
        url = (sc + '://' if sc else ('//' if nl else '')) + nl + pa
        if qu:
            url += '?' + qu
        if fr:
            url += '#' + fr
        for af in (True, False):
            got = N.urlsplit(url, allow_fragments=af)
            want = parse.urlsplit(url, allow_fragments=af)
            check('url-family/agrees-with-urllib',
                  tuple(got) == tuple(want) and got.geturl() == want.geturl()
                  and got.hostname == want.hostname
                  and got.port == want.port, detail=(url, af, tuple(got),
                                                     tuple(want)))
            pairs = parse.parse_qsl(want.query)
            last = {}
            every = {}
            for k, v in pairs:
                last[k] = v
                every.setdefault(k, []).append(v)
            every = {k: (v[0] if len(v) == 1 else v)
                     for k, v in every.items()}
            check('url-family/params-collapse-last-value',
                  got.params() == last, detail=(url, got.params(), last))
            check('url-family/params-all-values',
                  got.params(collapse=False) == every,
                  detail=(url, got.params(collapse=False), every))
    for url in ['//h/p?a=1#f', 'h/p', '/p?x=1', '', 'www.example.org/a?b#c',
                'http://h/p', '//u@h:80/', '?q=1', '#f']:
        for sch in ('', 'http', 'ftp', 'rabbit'):
            for af in (True, False):
                got = N.urlsplit(url, sch, af)
                want = parse.urlsplit(url, sch, af)
                check('url-family/default-scheme-honoured',
                      tuple(got) == tuple(want)
                      and got.geturl() == want.geturl(),
                      detail=(url, sch, af, tuple(got), tuple(want)))
                got = N.urlsplit(url, scheme=sch, allow_fragments=af)
                check('url-family/keyword-arguments',
                      tuple(got) == tuple(want), detail=(url, sch, af))
    for url in ['http://h/p#f', 'http://h/p#f?q', 'http://h/p?q#f',
                'http://h/#', 'http://h/?']:
        for af in (True, False):
            got = N.urlsplit(url, allow_fragments=af)
            want = parse.urlsplit(url, allow_fragments=af)
            check('url-family/fragment-handling', tuple(got) == tuple(want),
                  detail=(url, af, tuple(got), tuple(want)))


def itertools_product(*lists):
    import itertools
    return itertools.product(*lists)


CANARIES = [
    dict(name='urlsplit-fragment-split-ignores-allow-fragments', prop='C15',
         file=NU, proofs=['urlsplit_agrees_with_the_standard_library'],
         old="    if allow_fragments and '#' in path:",
         new="    if '#' in path:", expect='urlsplit/components'),
    dict(name='urlsplit-arguments-swapped', prop='C15',
         file=NU, proofs=['urlsplit_agrees_with_the_standard_library'],
         old="        url, scheme, allow_fragments)",
         new="        url, scheme, True)", expect='urlsplit/'),
    dict(name='params-collapse-keeps-the-first-value', prop='C15',
         file=NU, proofs=['params_collects_last_or_all_values'],
         old="                return dict(parse.parse_qsl(self.query))",
         new="                return dict(reversed(parse.parse_qsl(self.query)))",
         expect='params/last-value-wins'),
    dict(name='params-third-value-replaces-the-list', prop='C15',
         file=NU, proofs=['params_collects_last_or_all_values'],
         old="                        if isinstance(params[key], list):",
         new="                        if isinstance(params[key], tuple):",
         expect='params/all-values'),
    dict(name='cidr-except-narrowed', prop='C11', file=NU,
         proofs=['validators_never_raise_for_strings'],
         old="        netaddr.IPNetwork(address)\n    except (TypeError, ValueError, netaddr.AddrFormatError):",
         new="        netaddr.IPNetwork(address)\n    except (TypeError, netaddr.AddrFormatError):",
         expect=''),
    dict(name='scope-limit-16', prop='C11', file=NU,
         proofs=['ipv6_scope_id_rule'],
         old='(len(scope) < 1 or len(scope) > 15)',
         new='(len(scope) < 1 or len(scope) > 16)', expect='ipv6/scope'),
    dict(name='port-upper-bound-65536', prop='C11', file=NU,
         proofs=['integer_range_validators'],
         old='    return _is_int_in_range(port, 0, 65535)',
         new='    return _is_int_in_range(port, 0, 65536)', expect='range/'),
    dict(name='mac-five-groups', prop='C11', file=NU,
         proofs=['mac_pattern_language'],
         old='(:[0-9a-f]{2}){5}', new='(:[0-9a-f]{2}){4,5}', expect='mac/'),
    dict(name='eui64-flips-bit-56', prop='C15', file=NU,
         proofs=['eui64_round_trip'], old='eui64 ^ (1 << 57)',
         new='eui64 ^ (1 << 56)', expect='eui64/'),
    dict(name='mac-recovery-wrong-shift', prop='C15', file=NU,
         proofs=['eui64_round_trip'],
         old='0xff_ff_ff_00_00_00_00_00) >> 16)',
         new='0xff_ff_ff_00_00_00_00_00) >> 8)', expect='eui64/mac'),
]


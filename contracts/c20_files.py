"""C20 - file helpers agree with whole-file semantics and are idempotent.

The operating system and hashlib are dependencies: in the proofs they are
replaced by the model below (A-OS): a file is a ghost content C (symbolic
bytes) and a position; read(n) (n >= 1) returns C[pos:pos+n] and advances,
b'' only at end of file; read() returns the rest; seek(-k, SEEK_END) sets
pos = len-k or fails with EINVAL when k > len; a hash object accumulates the
bytes it is given and its digest is a function of the accumulated bytes.
OS calls that can fail raise OSError with a SYMBOLIC errno.
"""
from pyvc.api import (proof, bounded, load, model, invariant, fresh_int,
                      fresh_bytes, fresh_bool, pick, assume, check, implies,
                      conj, disj, neg, rng)

FU = 'oslo_utils/fileutils.py'

EEXIST = 17
ENOENT = 2
EINVAL = 22


class _NS:
    pass


class FakeFile:
    def __init__(self, content, seek_errno=None):
        self.C = content
        self.pos = 0
        self.closed = False
        self.reads = 0
        self.seek_errno = seek_errno

    def __enter__(self):
        return self

    def __exit__(self, a, b, c):
        self.closed = True
        return False

    def read(self, n=None):
        self.reads += 1
        if n is None:
            data = self.C[self.pos:]
        else:
            data = self.C[self.pos:self.pos + n]
        self.pos = self.pos + len(data)
        return data

    def seek(self, off, whence=0):
        if whence == 2:
            if self.seek_errno is not None:
                raise OSError(self.seek_errno, 'seek failed')
            if len(self.C) + off < 0:
                raise OSError(EINVAL, 'Invalid argument')
            self.pos = len(self.C) + off
        else:
            self.pos = off
        return self.pos

    def tell(self):
        return self.pos


class FakeHash:
    def __init__(self):
        self.acc = b''
        self.updates = 0

    def update(self, chunk):
        self.acc = self.acc + chunk
        self.updates += 1

    def hexdigest(self):
        return ('digest-of', self.acc)


@proof('C20', targets=[(FU, 'compute_file_checksum')], native=False,
       assumes=['A-OS: file/hash model', 'termination of the chunk loop is '
                'not verified'])
def checksum_is_digest_of_whole_content():
    F = load(FU)
    C = fresh_bytes('content')
    n = fresh_int('read_chunksize', 1)
    f = FakeFile(C)
    h = FakeHash()
    hl = _NS()
    hl.new = lambda algorithm: h
    model(F, 'hashlib', hl)
    model(F, 'open', lambda path, mode: f)
    tm = _NS()
    tm.sleep = lambda s: None
    model(F, 'time', tm)

    def inv(L):
        return (0 <= f.pos and f.pos <= len(C) and h.acc == C[:f.pos])

    def havoc(L):
        f.pos = fresh_int('pos_at_loop_head', 0, len(C))
        f.reads = fresh_int('reads_at_loop_head', 0)
        h.updates = fresh_int('updates_at_loop_head', 0)
        h.acc = C[:f.pos]
    invariant(F, 'compute_file_checksum', 0, inv, havoc=havoc,
              modifies=lambda L: [(f, 'pos'), (f, 'reads'), (h, 'acc'),
                                  (h, 'updates')],
              name='chunk-loop')
    r = F.compute_file_checksum('/some/file', n)
    check('checksum/digest-of-the-whole-content',
          r[0] == 'digest-of' and r[1] == C)
    check('checksum/file-closed', f.closed)


@proof('C20', targets=[(FU, 'last_bytes')], native=False,
       assumes=['A-OS'])
def last_bytes_contract():
    F = load(FU)
    C = fresh_bytes('content')
    num = fresh_int('num', 0)
    err = pick('seek_error', [None, 5, 9, 22])
    f = FakeFile(C, seek_errno=err)
    model(F, 'open', lambda path, mode: f)
    osm = _NS()
    osm.SEEK_END = 2
    osm.SEEK_SET = 0
    model(F, 'os', osm)
    raised = None
    try:
        data, unread = F.last_bytes('/some/file', num)
    except OSError as e:
        raised = e
    if err is not None and err != EINVAL:
        check('last_bytes/other-seek-errors-propagate',
              raised is not None and raised.errno == err)
        return
    check('last_bytes/no-error', raised is None)
    start = len(C) - num if num <= len(C) else 0
    if err == EINVAL:
        start = 0
    check('last_bytes/unread-count', unread == start)
    check('last_bytes/data-is-the-tail', data == C[start:])
    check('last_bytes/file-closed', f.closed)


@proof('C20', targets=[(FU, 'ensure_tree'), (FU, 'delete_if_exists')],
       native=False, assumes=['A-OS: makedirs/unlink fail with OSError(errno)'])
def errno_filters():
    F = load(FU)
    which = pick('function', ['ensure_tree', 'delete_if_exists'])
    fails = pick('os_call_fails', [False, True])
    errno = fresh_int('errno', 1, 133)
    isdir = fresh_bool('path_is_a_directory')
    err = OSError(errno, 'failed')
    calls = []

    def failing(*args):
        calls.append(args)
        if fails:
            raise err
    osm = _NS()
    osm.makedirs = failing
    osm.path = _NS()
    osm.path.isdir = lambda p: isdir
    model(F, 'os', osm)
    raised = None
    try:
        if which == 'ensure_tree':
            F.ensure_tree('/a/b', 0o755)
        else:
            F.delete_if_exists('/a/b', remove=failing)
    except BaseException as e:
        raised = e
    check('errno/os-call-made-once', len(calls) == 1)
    if not fails:
        check('errno/success-is-silent', raised is None)
        return
    if which == 'ensure_tree':
        swallowed = conj(errno == EEXIST, isdir)
    else:
        swallowed = (errno == ENOENT)
    check('errno/swallowed-exactly-for-the-benign-case',
          (raised is None) == swallowed)
    check('errno/every-other-error-reraised-as-the-same-object',
          raised is None or raised is err)


@proof('C20', targets=[(FU, 'write_to_tempfile')], native=False,
       assumes=['A-OS: mkstemp returns a fresh (fd, path)'])
def write_to_tempfile_contract():
    F = load(FU)
    content = fresh_bytes('content')
    path = pick('path', [None, '', '/some/dir'])
    write_fails = pick('write_fails', [False, True])
    log = []
    osm = _NS()

    def os_write(fd, data):
        log.append(('write', fd, data))
        if write_fails:
            raise OSError(28, 'No space left on device')

    def os_close(fd):
        log.append(('close', fd))
    osm.write = os_write
    osm.close = os_close
    model(F, 'os', osm)
    model(F, 'ensure_tree', lambda p: log.append(('ensure_tree', p)))
    tf = _NS()

    def mkstemp(suffix=None, dir=None, prefix=None):
        log.append(('mkstemp', suffix, dir, prefix))
        return (7, '/fresh/path')
    tf.mkstemp = mkstemp
    model(F, 'tempfile', tf)
    raised = None
    r = None
    try:
        r = F.write_to_tempfile(content, path, '.cfg', 'pre')
    except OSError as e:
        raised = e
    want = []
    if path:
        want.append(('ensure_tree', path))
    want.append(('mkstemp', '.cfg', path, 'pre'))
    check('tempfile/directories-first-then-mkstemp',
          log[:len(want)] == want)
    rest = log[len(want):]
    check('tempfile/content-written-once-then-closed',
          len(rest) == 2 and rest[0][0] == 'write' and rest[0][1] == 7
          and rest[0][2] == content and rest[1] == ('close', 7))
    if write_fails:
        check('tempfile/write-error-propagates-after-close',
              raised is not None)
    else:
        check('tempfile/returns-the-fresh-path', r == '/fresh/path')


@bounded('C20', targets=[(FU, 'compute_file_checksum'), (FU, 'last_bytes'),
                         (FU, 'write_to_tempfile'), (FU, 'ensure_tree'),
                         (FU, 'delete_if_exists')],
         bound='contents of size 0..3 chunks around every chunk multiple x '
               'chunk sizes {1,2,7,64,4096,65536,larger}; 3 hash algorithms; '
               'n in {0,1,size-1,size,size+1,2**40,2**62}; nested missing '
               'directories; every errno 1..133 injected into makedirs / '
               'remove; real file system in a temp dir')
def real_filesystem_family():
    import errno as errno_mod
    import hashlib
    import os
    import shutil
    import tempfile
    from unittest import mock
    F = load(FU)
    r = rng()
    d = tempfile.mkdtemp()
    try:
        p = os.path.join(d, 'data')
        for cs in (1, 2, 7, 64, 4096, 65536, 10 ** 6):
            sizes = set()
            for k in (0, 1, 2, 3):
                for delta in (-1, 0, 1):
                    s = k * cs + delta
                    if 0 <= s <= 300000:
                        sizes.add(s)
            if cs == 1:
                sizes = {0, 1, 2, 3, 50}
            for size in sorted(sizes):
                data = bytes(r.getrandbits(8) for _ in range(min(size, 4096)))
                data = (data * (size // max(1, len(data)) + 1))[:size]
                with open(p, 'wb') as f:
                    f.write(data)
                for alg in ('sha256', 'md5', 'sha512'):
                    if alg != 'sha256' and size > 5000:
                        continue
                    check('fs/checksum',
                          F.compute_file_checksum(p, cs, alg)
                          == hashlib.new(alg, data).hexdigest(),
                          detail=(size, cs, alg))
                for n in (0, 1, size - 1, size, size + 1, 2 ** 40, 2 ** 62):
                    if n < 0:
                        continue
                    try:
                        got = F.last_bytes(p, n)
                        exc = None
                    except Exception as e:
                        got, exc = None, type(e).__name__
                    k = min(n, size)
                    want = (data[size - k:], size - k)
                    check('fs/last_bytes', exc is None and got == want,
                          detail=(size, n, exc))
        for alg in sorted(hashlib.algorithms_available):
            if alg.startswith('shake'):
                continue
            check('fs/checksum-every-available-algorithm',
                  F.compute_file_checksum(p, 64, alg)
                  == hashlib.new(alg, open(p, 'rb').read()).hexdigest(),
                  detail=alg)
        check('fs/checksum-default-arguments',
              F.compute_file_checksum(p) == hashlib.sha256(
                  open(p, 'rb').read()).hexdigest())
        for depth in (0, 1, 3):
            sub = os.path.join(d, *['n%d' % i for i in range(depth)], 'leaf')
            existing = set(os.listdir(d))
            out = F.write_to_tempfile(b'hello \x00 world', path=sub,
                                      suffix='.s', prefix='p')
            check('fs/tempfile-created-with-content',
                  os.path.dirname(out) == sub
                  and open(out, 'rb').read() == b'hello \x00 world'
                  and os.path.basename(out).startswith('p')
                  and out.endswith('.s'), detail=sub)
            out2 = F.write_to_tempfile(b'x', path=sub)
            check('fs/tempfile-distinct-from-existing', out2 != out
                  and open(out, 'rb').read() == b'hello \x00 world')
        out = F.write_to_tempfile(b'')
        check('fs/tempfile-default-location', os.path.isfile(out)
              and os.path.getsize(out) == 0)
        os.unlink(out)
        t = os.path.join(d, 'tree', 'a', 'b')
        F.ensure_tree(t)
        F.ensure_tree(t)
        check('fs/ensure_tree-idempotent', os.path.isdir(t))
        fpath = os.path.join(d, 'plainfile')
        open(fpath, 'w').close()
        try:
            F.ensure_tree(fpath)
            exc = None
        except OSError as e:
            exc = e.errno
        check('fs/ensure_tree-on-a-file-raises', exc == errno_mod.EEXIST,
              detail=exc)
        F.delete_if_exists(fpath)
        F.delete_if_exists(fpath)
        check('fs/delete-idempotent', not os.path.exists(fpath))
        try:
            F.delete_if_exists(os.path.join(p, 'child'))
            exc = None
        except OSError as e:
            exc = e.errno
        check('fs/delete-under-a-file-raises-enotdir',
              exc == errno_mod.ENOTDIR, detail=exc)
        for e_no in range(1, 134):
            for target_is_dir in (True, False):
                target = t if target_is_dir else p
                with mock.patch('os.makedirs',
                                side_effect=OSError(e_no, 'injected')):
                    try:
                        F.ensure_tree(target)
                        exc = None
                    except OSError as e:
                        exc = e.errno
                want = None if (e_no == errno_mod.EEXIST
                                and target_is_dir) else e_no
                check('fs/ensure_tree-errno', exc == want,
                      detail=(e_no, target_is_dir, exc))

            def failing_remove(path, _e=e_no):
                raise OSError(_e, 'injected')
            try:
                F.delete_if_exists(p, remove=failing_remove)
                exc = None
            except OSError as e:
                exc = e.errno
            check('fs/delete_if_exists-errno',
                  exc == (None if e_no == errno_mod.ENOENT else e_no),
                  detail=(e_no, exc))
    finally:
        shutil.rmtree(d, ignore_errors=True)


CANARIES = [
    dict(name='sentinel-never-matches-skips-last-chunk', file=FU,
         proofs=['checksum_is_digest_of_whole_content'],
         old="            checksum.update(chunk)\n",
         new="            if len(chunk) == read_chunksize:\n                checksum.update(chunk)\n",
         expect='chunk-loop/step'),
    dict(name='ensure-tree-isdir-dropped', file=FU, proofs=['errno_filters'],
         old='            if not os.path.isdir(path):\n                raise\n',
         new='            pass\n', expect='errno/swallowed'),
    dict(name='delete-swallows-everything', file=FU,
         proofs=['errno_filters'],
         old='        if e.errno != errno.ENOENT:\n            raise',
         new='        if e.errno == errno.EPERM:\n            raise',
         expect='errno/'),
    dict(name='last-bytes-seeks-one-too-far', file=FU,
         proofs=['last_bytes_contract'],
         old='            fp.seek(-num, os.SEEK_END)',
         new='            fp.seek(-num - 1, os.SEEK_END)',
         expect='last_bytes/'),
    dict(name='close-outside-finally', file=FU,
         proofs=['write_to_tempfile_contract'],
         old='    try:\n        os.write(fd, content)\n    finally:\n        os.close(fd)\n',
         new='    os.write(fd, content)\n    os.close(fd)\n',
         expect='tempfile/'),
]

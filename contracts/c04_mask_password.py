"""C04 - mask_password hides every supported secret and changes nothing else.

Deductive part
  1. tables: the 35 documented keys, every format pattern compiled for every
     key with DOTALL|IGNORECASE (the module's compilation loop is executed by
     the engine on the real source);
  2. body: with re.sub replaced by a recording stand-in (A-RE) and a message
     in which at most ONE chosen key occurs (each of the 35 in turn): no key
     -> no substitution, message returned unchanged; key present -> all
     _2 patterns, then _1, then the wildcard ones, of that key only, each
     applied to the result of the previous one, with the templates
     \\g<1>secret\\g<2>, \\g<1>secret, \\g<1>;
  3. regular-language lemmas on the real pattern strings (z3 RegLan): every
     rendering of the property - key, optional digits, the rendering's
     punctuation, a value over the property's alphabet for that rendering -
     is matched in full by the responsible pattern (coverage), and no pattern
     can match a message that does not contain its key (neutrality).
Bounded part (labelled): the end-to-end clause - exactly the value replaced,
secret absent, key-free messages unchanged, idempotence - on the real
function over 35 keys x 4 spellings x 11 renderings x secrets x contexts.
"""
from pyvc.api import (proof, bounded, load, model, fresh_str, pick, assume,
                      check, implies, conj, disj, neg, in_lang, re_lang, rng,
                      regex_hook)

SU = 'oslo_utils/strutils.py'

KEYS = ['adminpass', 'admin_pass', 'password', 'admin_password',
        'auth_token', 'new_pass', 'auth_password', 'secret_uuid', 'secret',
        'sys_pswd', 'token', 'configdrive', 'chappassword', 'encrypted_key',
        'private_key', 'fernetkey', 'sslkey', 'passphrase',
        'cephclusterfsid', 'octaviaheartbeatkey', 'rabbitcookie',
        'cephmanilaclientkey', 'pacemakerremoteauthkey', 'designaterndckey',
        'cephadminkey', 'heatauthencryptionkey', 'cephclientkey',
        'keystonecredential', 'barbicansimplecryptokek', 'cephrgwkey',
        'swifthashsuffix', 'migrationsshkey', 'cephmdskey', 'cephmonkey',
        'chapsecret']

DOTALL_IGNORECASE = 16 | 2


@proof('C04', targets=[(SU, '_SANITIZE_KEYS'), (SU, '_SANITIZE_PATTERNS_1'),
                       (SU, '_SANITIZE_PATTERNS_2'),
                       (SU, '_SANITIZE_PATTERNS_WILDCARD')])
def every_pattern_compiled_for_every_key():
    S = load(SU)
    check('tables/documented-keys', sorted(S._SANITIZE_KEYS) == sorted(KEYS))
    for key in KEYS:
        for fmts, table, nm in ((S._FORMAT_PATTERNS_2, S._SANITIZE_PATTERNS_2,
                                 '2'),
                                (S._FORMAT_PATTERNS_1, S._SANITIZE_PATTERNS_1,
                                 '1'),
                                (S._FORMAT_PATTERNS_WILDCARD,
                                 S._SANITIZE_PATTERNS_WILDCARD, 'wildcard')):
            pats = table[key]
            check('tables/patterns-%s-compiled-per-key' % nm,
                  [p.pattern for p in pats]
                  == [f % {'key': key} for f in fmts])
            check('tables/patterns-%s-flags' % nm,
                  all([(p.flags & DOTALL_IGNORECASE) == DOTALL_IGNORECASE
                       for p in pats]))


class _NS:
    pass


@proof('C04', targets=[(SU, 'mask_password')], native=False,
       assumes=['A-RE: re.sub(pattern, template, text) is a function of its '
                'arguments (leftmost non-overlapping replacement)'])
def substitution_order_for_one_key():
    S = load(SU)
    K = pick('key', KEYS)
    message = fresh_str('message')
    secret = pick('secret', ['***', '<hidden>'])
    # at most the chosen key occurs in the message
    low = message.lower()
    for k in KEYS:
        if k != K:
            assume(neg(k in low))
    present = K in low
    log = []

    class Out:
        """Result of one substitution step (opaque text)."""

        def __init__(self, n):
            self.n = n

        def lower(self):
            return low

    limits = []

    def sub(pattern, template, text, count=0, flags=0):
        log.append((pattern, template, text))
        limits.append((count, flags))
        return Out(len(log))
    fake_re = _NS()
    fake_re.sub = sub
    # the flag constants of the real module (a caller may name them)
    import re as _real_re
    for _flag in ('DOTALL', 'IGNORECASE', 'MULTILINE', 'VERBOSE', 'ASCII',
                  'UNICODE', 'S', 'I', 'M', 'X', 'A', 'U'):
        setattr(fake_re, _flag, int(getattr(_real_re, _flag)))
    model(S, 're', fake_re)
    # the same stand-in for the method spelling pattern.sub(template, text)
    regex_hook(['sub'], lambda pat, name, args: sub(pat, args[0], args[1]))
    r = S.mask_password(message, secret)
    if not present:
        check('body/no-key-no-substitution', log == [])
        check('body/key-free-message-returned-unchanged', r is message)
        return
    want = []
    for p in S._SANITIZE_PATTERNS_2[K]:
        want.append((p, r'\g<1>' + secret + r'\g<2>'))
    for p in S._SANITIZE_PATTERNS_1[K]:
        want.append((p, r'\g<1>' + secret))
    for p in S._SANITIZE_PATTERNS_WILDCARD[K]:
        want.append((p, r'\g<1>'))
    check('body/all-patterns-of-the-key-in-order-with-their-templates',
          [(a, b) for (a, b, _c) in log] == want)
    check('body/every-occurrence-is-replaced-no-count-no-flags',
          all([c == (0, 0) for c in limits]))
    check('body/each-step-works-on-the-previous-result',
          log[0][2] is message and all(
              [log[i][2].n == i for i in range(1, len(log))]))
    check('body/result-is-the-last-step', r.n == len(log))


# the renderings of the property: (name, index into the pattern lists,
# spec regex for one instance, with %(key)s, over the property's value
# alphabet for that rendering)
BARE = r'[^\s\'"]'                 # printable non-space non-quote
INQ = r'[^"\']'                    # inside quotes: anything but a quote
RENDERINGS = [
    ('key=value', ('1', 0), r'%(key)s[0-9]*=' + BARE + '+'),
    ('key = "value"', ('2', 0), r'%(key)s[0-9]* = "' + INQ + '*"'),
    ("key='value'", ('2', 0), r"%(key)s[0-9]*='" + INQ + "*'"),
    ('key "value"', ('2', 3), r'%(key)s[0-9]* "' + INQ + '*"'),
    ('--key value', ('2', 4), r'--%(key)s[0-9]* [^\s\'"=]+'),
    ('<key>value</key>', ('2', 5), r'<%(key)s[0-9]*>[^<]*</%(key)s[0-9]*>'),
    ('"key": "value"', ('2', 6), r'"%(key)s[0-9]*": "' + INQ + '*"'),
    ("'key': u'value'", ('2', 7), r"'%(key)s[0-9]*': u'" + INQ + "*'"),
    ("'key', '--flag', 'value'", ('2', 8),
     r"'%(key)s[0-9]*', '--?[A-Za-z_]+', '" + INQ + "*'"),
    ('key --flag value', ('2', 9), r'%(key)s[0-9]* --?[A-Za-z_]+ \S+'),
]


@proof('C04', targets=[(SU, '_FORMAT_PATTERNS_1'), (SU, '_FORMAT_PATTERNS_2'),
                       (SU, '_FORMAT_PATTERNS_WILDCARD')],
       assumes=['A-RE-UNIVERSE'])
def rendering_languages_are_covered_and_neutral():
    S = load(SU)
    key = pick('key', ['password', 'auth_token', 'cephmanilaclientkey'])
    which = pick('rendering', [r[0] for r in RENDERINGS])
    row = [r for r in RENDERINGS if r[0] == which][0]
    table = S._FORMAT_PATTERNS_1 if row[1][0] == '1' \
        else S._FORMAT_PATTERNS_2
    pattern = table[row[1][1]] % {'key': key}
    x = fresh_str('text')
    spec = re_lang(row[2] % {'key': key}, DOTALL_IGNORECASE)
    real = re_lang(pattern, DOTALL_IGNORECASE)
    check('lemma/rendering-matched-in-full-by-its-pattern',
          implies(in_lang(x, spec), in_lang(x, real)))
    # neutrality: whatever the pattern finds contains the key (any case)
    found = re_lang(pattern, DOTALL_IGNORECASE, 'search')
    has_key = re_lang('.*' + key + '.*', DOTALL_IGNORECASE)
    check('lemma/pattern-only-fires-when-the-key-occurs',
          implies(in_lang(x, found), in_lang(x, has_key)))


@proof('C04', targets=[(SU, '_FORMAT_PATTERNS_WILDCARD')],
       assumes=['A-RE-UNIVERSE'])
def wildcard_pattern_is_neutral():
    S = load(SU)
    key = pick('key', ['password', 'token'])
    x = fresh_str('text')
    pattern = S._FORMAT_PATTERNS_WILDCARD[0] % {'key': key}
    found = re_lang(pattern, DOTALL_IGNORECASE, 'search')
    has_key = re_lang('.*' + key + '.*', DOTALL_IGNORECASE)
    check('lemma/wildcard-only-fires-when-the-key-occurs',
          implies(in_lang(x, found), in_lang(x, has_key)))


# ---------------------------------------------------------------------------


def render(how, key, value):
    return {
        'bare': '%s=%s' % (key, value),
        'bare-spaced': '%s = %s' % (key, value),
        'dq': '%s="%s"' % (key, value),
        'sq': "%s = '%s'" % (key, value),
        'key-space-quoted': '%s "%s"' % (key, value),
        'dashdash': '--%s %s' % (key, value),
        'xml': '<%s>%s</%s>' % (key, value, key),
        'json': '"%s": "%s"' % (key, value),
        'dict': "'%s': '%s'" % (key, value),
        'dict-u': "u'%s': u'%s'" % (key, value),
        'list-flag': "'%s', '--flag', '%s'" % (key, value),
        'cmd-flag': '%s --flag %s' % (key, value),
        'list-flag-underscore': "'%s', '--new_value', '%s'" % (key, value),
        'cmd-flag-short': '%s -v %s' % (key, value),
    }[how]


QUOTED = ('dq', 'sq', 'key-space-quoted', 'xml', 'json', 'dict', 'dict-u',
          'list-flag', 'list-flag-underscore')


@bounded('C04', targets=[(SU, 'mask_password')],
         bound='35 keys x {lower, UPPER, Capitalised, digit-suffixed} x 12 '
               'renderings x 16 secrets (regex metacharacters, non-ASCII, '
               'spaces inside quoted/XML) x 3 neutral contexts x 2 masks; '
               'secrets of length 1..40 sampled; two secrets per message; '
               'key-free messages; idempotence')
def end_to_end_family():
    S = load(SU)
    r = rng()
    secrets = ['s3cr3t', 'a', 'x.y', 'a*b+c?', '(paren)', '[br]', 'p|q',
               'ab^cd', '$1\\2', 'ümläut', 'a/b:c', 'p@ss!', '{}#%&',
               '0', 'semi;colon', 'q~`']
    spaced = ['two words', ' lead', 'tab\tbed']
    contexts = [('', ''), ('user=bob ', ' done'),
                ('2024-01-01 INFO run: ', '\nnext line')]
    hows = ['bare', 'bare-spaced', 'dq', 'sq', 'key-space-quoted',
            'dashdash', 'xml', 'json', 'dict', 'dict-u', 'list-flag',
            'cmd-flag', 'list-flag-underscore', 'cmd-flag-short']
    for key in KEYS:
        forms = [key, key.upper(), key.capitalize(), key + '2']
        for form in forms:
            for how in hows:
                pool = secrets + (spaced if how in QUOTED else [])
                if form != key:
                    pool = r.sample(pool, 4)
                for sec in pool:
                    if how in ('bare', 'bare-spaced', 'cmd-flag',
                               'cmd-flag-short') and (
                            '"' in sec or "'" in sec):
                        continue
                    if how == 'dashdash' and '=' in sec:
                        continue
                    if how == 'xml' and '<' in sec:
                        continue
                    for pre, post in (contexts if form == key
                                      else contexts[:1]):
                        for mask in (('***', '???') if form == key
                                     else ('***',)):
                            msg = pre + render(how, form, sec) + post
                            want = pre + render(how, form, mask) + post
                            got = S.mask_password(msg, mask)
                            check('e2e/exactly-the-value-replaced',
                                  got == want, detail=(msg, got))
                            check('e2e/secret-absent', sec not in got
                                  or sec in want, detail=(msg, got))
                            check('e2e/idempotent',
                                  S.mask_password(got, mask) == got,
                                  detail=(msg, got))
    # longer secrets, sampled
    alphabet = [chr(c) for c in range(33, 127) if chr(c) not in '\'"<=']
    alphabet += ['é', 'ß', '你']
    for _ in range(400):
        sec = ''.join(r.choice(alphabet) for _ in range(r.randint(1, 40)))
        key = r.choice(KEYS)
        how = r.choice(hows)
        msg = 'ctx ' + render(how, key, sec) + ' end'
        got = S.mask_password(msg)
        check('e2e/long-secret', got == 'ctx ' + render(how, key, '***')
              + ' end', detail=(msg, got))
    # two secrets per message
    for _ in range(300):
        k1, k2 = r.choice(KEYS), r.choice(KEYS)
        h1 = r.choice(['bare', 'dq', 'xml', 'dashdash'])
        h2 = r.choice(['bare', 'dq', 'xml', 'dashdash'])
        s1, s2 = r.choice(secrets[:6]), r.choice(secrets[6:12])
        if '=' in s1 + s2:
            continue
        msg = render(h1, k1, s1) + ' and ' + render(h2, k2, s2)
        got = S.mask_password(msg)
        check('e2e/two-secrets', got == render(h1, k1, '***') + ' and '
              + render(h2, k2, '***'), detail=(msg, got))
    # many secrets of one key in one message (every occurrence, not the
    # first few)
    for how in ('bare', 'dq', 'xml', 'dashdash'):
        for n in (17, 40):
            key = r.choice(KEYS)
            parts = [render(how, key, 'sec%dret' % i) for i in range(n)]
            msg = ' ; '.join(parts)
            want = ' ; '.join([render(how, key, '***')] * n)
            got = S.mask_password(msg)
            check('e2e/every-occurrence-masked', got == want,
                  detail=(how, key, n, got[:200]))
    # key-free messages
    neutral = ['', 'hello world', 'user=bob id=7', '{"a": "b", "c": 1}',
               "<x>y</x> --flag v 'q': 'r'", 'pass word tok en secr et',
               'pässwörd=1', 'a' * 500, 'p\na\ns\ns', "it's \"quoted\""]
    for m in neutral:
        for mask in ('***', ''):
            check('e2e/key-free-unchanged', S.mask_password(m, mask) == m,
                  detail=m)
    check('e2e/non-string-is-stringified', S.mask_password(5) == '5')
    # --- known deviations of the pinned tree, kept as separate checks ---
    for msg in ['"password": "abc", "x": "y"',
                "{'password': 'abc', 'user': 'bob'}",
                "{'token': 't'}, 'tail'"]:
        got = S.mask_password(msg)
        want = msg.replace('abc', '***').replace("'t'", "'***'")
        check('e2e/dict-style-followed-by-more-quoted-text', got == want,
              detail=(msg, got))
    for msg in ['--password ab=cd', '--token x=y z']:
        got = S.mask_password(msg)
        check('e2e/dashdash-value-containing-equals',
              'ab=cd' not in got and 'x=y' not in got
              and ('=cd' not in got) and ('=y' not in got),
              detail=(msg, got))


CANARIES = [
    dict(name='key-dropped', file=SU,
         proofs=['every_pattern_compiled_for_every_key'],
         old="'sys_pswd', 'token', 'configdrive',",
         new="'sys_pswd', 'configdrive',", expect='tables/documented'),
    dict(name='ignorecase-lost-for-patterns-1', file=SU,
         proofs=['every_pattern_compiled_for_every_key'],
         old="    for pattern in _FORMAT_PATTERNS_1:\n        reg_ex = re.compile(pattern % {'key': key}, re.DOTALL | re.IGNORECASE)",
         new="    for pattern in _FORMAT_PATTERNS_1:\n        reg_ex = re.compile(pattern % {'key': key}, re.DOTALL)",
         expect='tables/patterns-1-flags'),
    dict(name='presence-test-on-unlowered-message', file=SU,
         proofs=['substitution_order_for_one_key'],
         old='        if key in message.lower():',
         new='        if key in message.upper():', expect=''),
    dict(name='template-loses-group-2', file=SU,
         proofs=['substitution_order_for_one_key'],
         old="    substitute2 = r'\\g<1>' + secret + r'\\g<2>'",
         new="    substitute2 = r'\\g<1>' + secret", expect='body/all-patterns'),
    dict(name='u-prefix-dropped', file=SU,
         proofs=['rendering_languages_are_covered_and_neutral'],
         old=r"""r'([\'"][^"\']*%(key)s[0-9]*[\'"]\s*:\s*u?[\'"])[^\"\']*'""",
         new=r"""r'([\'"][^"\']*%(key)s[0-9]*[\'"]\s*:\s*[\'"])[^\"\']*'""",
         expect='lemma/rendering-matched'),
    dict(name='bare-value-class-narrowed', file=SU,
         proofs=['rendering_languages_are_covered_and_neutral'],
         old=r"""_FORMAT_PATTERNS_1 = [r'(%(key)s[0-9]*\s*[=]\s*)[^\s\'\"]+']""",
         new=r"""_FORMAT_PATTERNS_1 = [r'(%(key)s[0-9]*\s*[=]\s*)[^\s\'\"^]+']""",
         expect='lemma/rendering-matched'),
]

"""C09 - exception-handling helpers never lose, replace or invent an
exception.

Model (A-RAISE): exceptions are objects with identity; `raise` appends the
raising frame to the object's traceback chain (a tuple that only grows);
sys.exc_info() returns the exception being handled; `with` follows PEP 343.
Handler bodies are generated from a menu of actions (no-op, raise-and-catch
an inner exception, switch reraise off/on, nest another context, raise a new
exception) - two actions deep, every combination, times the initial reraise
flag, times exception kinds.  The per-method contracts (capture,
force_reraise) cover bodies that call those methods themselves.
"""
from pyvc.api import (proof, bounded, load, model, blank, fresh_bool, pick,
                      assume, check, implies, conj, disj, neg, log_count,
                      rng)

EX = 'oslo_utils/excutils.py'
FU = 'oslo_utils/fileutils.py'


class NeedsArgs(Exception):
    """An exception class with mandatory constructor arguments."""

    def __init__(self, a, b):
        super().__init__(a, b)
        self.a = a
        self.b = b


class Interrupt(BaseException):
    """A BaseException that is not an Exception."""


class SpyLogger:
    def __init__(self):
        self.errors = []

    def error(self, msg, *args):
        self.errors.append((msg, args))


def make_original(kind):
    if kind == 'plain':
        return ValueError('original')
    if kind == 'needs-args':
        return NeedsArgs(1, 2)
    if kind == 'chained':
        e = KeyError('original')
        e.__cause__ = RuntimeError('root cause')
        return e
    return Interrupt('original')


ACTIONS = ['noop', 'inner', 'off', 'on', 'nest', 'raise-new',
           'raise-new-base', 'reraise-saved-and-swallow']


def run_action(X, ctxt, action, state):
    """One step of a handler body.  state = [flag, new_exception]."""
    if action == 'inner':
        # raising and catching an unrelated exception clears the
        # interpreter's "current exception"
        try:
            raise KeyError('inner')
        except KeyError:
            pass
    elif action == 'off':
        ctxt.reraise = False
        state[0] = False
    elif action == 'on':
        ctxt.reraise = True
        state[0] = True
    elif action == 'nest':
        try:
            raise RuntimeError('other original')
        except RuntimeError:
            with X.save_and_reraise_exception(reraise=False,
                                              logger=SpyLogger()):
                pass
    elif action == 'raise-new':
        new = OSError('new failure')
        state[1] = new
        raise new
    elif action == 'reraise-saved-and-swallow':
        # a cleanup helper re-raises the saved exception object and the
        # handler swallows it: frames of the handler body get attached to
        # the object and must be dropped again by the final re-raise
        try:
            raise ctxt.value
        except BaseException:
            pass
    elif action == 'raise-new-base':
        new = Interrupt('new interrupt')
        state[1] = new
        raise new


@proof('C09', targets=[(EX, 'save_and_reraise_exception.__init__'),
                       (EX, 'save_and_reraise_exception.__enter__'),
                       (EX, 'save_and_reraise_exception.__exit__'),
                       (EX, 'save_and_reraise_exception.capture'),
                       (EX, 'save_and_reraise_exception.force_reraise')],
       native=False, assumes=['A-RAISE'])
def save_and_reraise_for_every_body():
    X = load(EX)
    kind = pick('exception_kind', ['plain', 'needs-args', 'chained',
                                   'base-exception'])
    initial = pick('initial_reraise', [True, False])
    a1 = pick('action1', ACTIONS)
    a2 = pick('action2', ACTIONS)
    orig = make_original(kind)
    logger = SpyLogger()
    state = [initial, None]
    outcome = None
    tb_at_capture = None
    try:
        try:
            raise orig
        except BaseException:
            tb_at_capture = orig.__traceback__
            with X.save_and_reraise_exception(reraise=initial,
                                              logger=logger) as ctxt:
                run_action(X, ctxt, a1, state)
                run_action(X, ctxt, a2, state)
    except BaseException as e:
        outcome = e
    flag, new = state
    if new is not None:
        check('srr/new-exception-propagates', outcome is new)
        check('srr/original-logged-exactly-when-it-was-due',
              len(logger.errors) == (1 if flag else 0))
    elif flag:
        check('srr/same-object-reraised', outcome is orig)
        tb = outcome.__traceback__
        check('srr/original-traceback-preserved',
              tb[:len(tb_at_capture)] == tb_at_capture)
        # exactly the original chain plus the re-raise itself: nothing the
        # handler body did to the object in between survives
        check('srr/traceback-is-the-original-plus-the-reraise-only',
              len(tb) == len(tb_at_capture) + 1)
        check('srr/nothing-logged', len(logger.errors) == 0)
    else:
        check('srr/nothing-raised-when-switched-off', outcome is None)
        check('srr/nothing-logged', len(logger.errors) == 0)


@proof('C09', targets=[(EX, 'save_and_reraise_exception.capture'),
                       (EX, 'save_and_reraise_exception.force_reraise')],
       native=False, assumes=['A-RAISE'])
def capture_and_force_reraise_contracts():
    X = load(EX)
    ctxt = X.save_and_reraise_exception(logger=SpyLogger())
    scenario = pick('scenario', ['capture-nothing-checked',
                                 'capture-nothing-unchecked',
                                 'force-without-capture',
                                 'capture-then-force',
                                 'capture-refused-capture-force'])
    raised = None
    if scenario == 'capture-nothing-checked':
        try:
            ctxt.capture()
        except Exception as e:
            raised = e
        check('capture/runtimeerror-without-active-exception',
              isinstance(raised, RuntimeError))
    elif scenario == 'capture-nothing-unchecked':
        r = ctxt.capture(check=False)
        check('capture/unchecked-returns-self', r is ctxt
              and ctxt.value is None and ctxt.type_ is None)
    elif scenario == 'force-without-capture':
        try:
            ctxt.force_reraise()
        except Exception as e:
            raised = e
        check('force/runtimeerror-when-nothing-captured',
              isinstance(raised, RuntimeError))
    elif scenario == 'capture-refused-capture-force':
        orig = make_original(pick('exception_kind', ['plain', 'needs-args']))
        try:
            raise orig
        except Exception:
            ctxt.capture()
        refused = None
        try:
            ctxt.capture()          # nothing active any more: refused
        except RuntimeError as e:
            refused = e
        check('capture/refused-when-nothing-active', refused is not None)
        check('capture/refused-capture-keeps-the-earlier-one',
              ctxt.value is orig)
        try:
            ctxt.force_reraise()
        except BaseException as e:
            raised = e
        check('force/still-raises-the-captured-object', raised is orig)
    else:
        orig = make_original(pick('exception_kind', ['plain', 'needs-args']))
        try:
            try:
                raise orig
            except Exception:
                r = ctxt.capture()
                check('capture/stores-the-active-exception',
                      r is ctxt and ctxt.value is orig
                      and ctxt.tb is orig.__traceback__)
                try:
                    raise KeyError('inner')      # clears the context
                except KeyError:
                    pass
                ctxt.force_reraise()
        except Exception as e:
            raised = e
        check('force/raises-the-captured-object', raised is orig)
        check('force/clears-the-saved-value', ctxt.value is None
              and ctxt.tb is None)


@proof('C09', targets=[(EX, 'exception_filter.__init__'),
                       (EX, 'exception_filter.__enter__'),
                       (EX, 'exception_filter.__exit__'),
                       (EX, 'exception_filter.__call__'),
                       (EX, 'exception_filter.__get__')], native=False,
       assumes=['A-RAISE'])
def exception_filter_contract():
    X = load(EX)
    # the predicate may answer with any truthy / falsy value
    answer = pick('predicate_answer', [True, False, 1, 0, 'yes', '', [1],
                                       [], None])
    accept = bool(answer)
    seen = []

    def pred(ex):
        seen.append(ex)
        return answer

    class Holder:
        @X.exception_filter
        def method_filter(self, ex):
            seen.append((self, ex))
            return answer

    style = pick('style', ['object', 'decorated-function', 'bound-method'])
    if style == 'object':
        flt = X.exception_filter(pred)
    elif style == 'decorated-function':
        @X.exception_filter
        def flt(ex):
            seen.append(ex)
            return answer
    else:
        holder = Holder()
        flt = holder.method_filter
    use = pick('use', ['context-raises', 'context-quiet', 'call-active',
                       'call-other-active', 'call-none-active'])
    # (also exceptions that derive from BaseException only, like
    # GreenletExit / CancelledError: the predicate decides for them too)
    exc = make_original(pick('exception_kind', ['plain', 'needs-args',
                                                'base-exception']))
    outcome = None
    if use == 'context-raises':
        try:
            with flt:
                raise exc
        except BaseException as e:
            outcome = e
        check('filter/suppressed-exactly-when-predicate-accepts',
              (outcome is None) == accept)
        check('filter/rejected-exception-propagates-as-same-object',
              outcome is None or outcome is exc)
        check('filter/predicate-consulted-once', len(seen) == 1)
    elif use == 'context-quiet':
        with flt:
            pass
        check('filter/no-exception-no-predicate-call', len(seen) == 0)
    else:
        try:
            if use == 'call-active':
                try:
                    raise exc
                except BaseException as caught:
                    flt(caught)
            elif use == 'call-other-active':
                try:
                    raise LookupError('a different active exception')
                except LookupError:
                    flt(exc)
            else:
                flt(exc)
        except BaseException as e:
            outcome = e
        check('filter/call-returns-exactly-when-predicate-accepts',
              (outcome is None) == accept)
        check('filter/call-reraises-the-given-object',
              outcome is None or outcome is exc)


@proof('C09', targets=[(FU, 'remove_path_on_error'),
                       (EX, 'save_and_reraise_exception.__exit__')],
       native=False, assumes=['A-RAISE', 'A-CTXLIB'])
def remove_path_on_error_contract():
    F = load(FU)
    calls = []
    remove_fails = pick('remove_raises', [False, True])
    e2 = OSError('remove failed')

    def remove(path):
        calls.append(path)
        if remove_fails:
            raise e2
    body = pick('body', ['ok', 'raises-exception', 'raises-base-exception'])
    exc = ValueError('boom') if body == 'raises-exception' else \
        Interrupt('stop')
    outcome = None
    try:
        with F.remove_path_on_error('/some/path', remove=remove):
            if body != 'ok':
                raise exc
    except BaseException as e:
        outcome = e
    if body == 'ok':
        check('rpoe/no-error-no-removal', outcome is None and calls == [])
    elif body == 'raises-exception':
        check('rpoe/path-removed-exactly-once', calls == ['/some/path'])
        if remove_fails:
            check('rpoe/removal-failure-propagates', outcome is e2)
            check('rpoe/original-logged', log_count('error') == 1)
        else:
            check('rpoe/original-exception-reraised', outcome is exc)
    else:
        check('rpoe/base-exceptions-pass-through', outcome is exc
              and calls == [])


@proof('C09', targets=[(EX, 'raise_with_cause'),
                       (EX, 'CausedByException.__init__')], native=False,
       assumes=['A-RAISE'])
def raise_with_cause_contract():
    X = load(EX)
    how = pick('cause', ['explicit', 'active', 'none'])
    explicit = ValueError('explicit cause')
    active = KeyError('active')
    outcome = None
    try:
        if how == 'explicit':
            try:
                raise active
            except KeyError:
                X.raise_with_cause(X.CausedByException, 'msg',
                                   cause=explicit)
        elif how == 'active':
            try:
                raise active
            except KeyError:
                X.raise_with_cause(X.CausedByException, 'msg')
        else:
            X.raise_with_cause(X.CausedByException, 'msg')
    except BaseException as e:
        outcome = e
    check('rwc/raises-an-instance-of-the-class',
          isinstance(outcome, X.CausedByException)
          and outcome.args == ('msg',))
    want = explicit if how == 'explicit' else (active if how == 'active'
                                               else None)
    check('rwc/cause-attribute', outcome.cause is want)
    check('rwc/python-cause-chain', outcome.__cause__ is want)


@bounded('C09', targets=[(EX, 'save_and_reraise_exception'),
                         (EX, 'exception_filter'),
                         (FU, 'remove_path_on_error'),
                         (EX, 'raise_with_cause')],
         bound='handler bodies: all action sequences of length <= 3 over 7 '
               'actions (incl. direct capture/force_reraise calls) x initial '
               'flag x 5 exception kinds; filter: 3 styles x 5 uses x '
               'predicate outcome; remove_path_on_error on a temp dir incl. '
               'dangling symlink; real tracebacks compared frame by frame')
def real_interpreter_family():
    import itertools
    import logging
    import os
    import sys
    import tempfile
    import traceback
    X = load(EX)
    F = load(FU)

    def frames(tb):
        return [(f.filename, f.lineno, f.name)
                for f in traceback.extract_tb(tb)]
    acts = ['noop', 'inner', 'off', 'on', 'nest', 'raise-new',
            'raise-new-base', 'reraise-saved-and-swallow',
            'force-and-catch']
    kinds = ['plain', 'needs-args', 'chained', 'base-exception',
             'pre-raised']
    for n in (0, 1, 2, 3):
        for seq in itertools.product(acts, repeat=n):
            for initial in (True, False):
                for kind in kinds:
                    if n == 3 and kind not in ('plain', 'needs-args'):
                        continue
                    if kind == 'pre-raised':
                        try:
                            raise ValueError('seen before')
                        except ValueError as e0:
                            orig = e0
                    else:
                        orig = make_original(kind)
                    logger = SpyLogger()
                    state = [initial, None]
                    forced = [False]
                    outcome = None
                    tb0 = None
                    try:
                        try:
                            raise orig
                        except BaseException:
                            tb0 = frames(orig.__traceback__)
                            with X.save_and_reraise_exception(
                                    reraise=initial, logger=logger) as c:
                                for a in seq:
                                    if a == 'force-and-catch':
                                        try:
                                            c.force_reraise()
                                        except BaseException as fe:
                                            check('srr-family/force-'
                                                  'reraises-original',
                                                  fe is orig or forced[0],
                                                  detail=(seq, kind))
                                            forced[0] = True
                                    else:
                                        run_action(X, c, a, state)
                    except BaseException as e:
                        outcome = e
                    flag, new = state
                    d = (seq, initial, kind)
                    if new is not None:
                        check('srr-family/new-exception-propagates',
                              outcome is new, detail=d)
                        check('srr-family/original-logged-iff-due',
                              len(logger.errors) == (1 if flag else 0),
                              detail=d)
                    elif flag and not forced[0]:
                        check('srr-family/same-object-reraised',
                              outcome is orig, detail=d)
                        if outcome is orig:
                            got = frames(outcome.__traceback__)
                            # CPython links new entries in FRONT of the
                            # existing chain: the original raise stays at
                            # the innermost end
                            check('srr-family/original-traceback-kept',
                                  got[-len(tb0):] == tb0, detail=d)
                            check('srr-family/no-frames-of-the-handler-body',
                                  not any(f[2] == 'run_action'
                                          for f in got), detail=d)
                    elif not flag:
                        check('srr-family/nothing-raised-when-off',
                              outcome is None, detail=d)
                    elif seq == ('force-and-catch',):
                        # body forces the re-raise itself, swallows it and
                        # completes: the exit must still raise the original
                        check('srr-family/same-object-after-direct-'
                              'force_reraise', outcome is orig,
                              detail=(kind, type(outcome).__name__))
    # exception_filter
    for answer in (True, False, 1, 0, 'yes', '', [0], None):
        accept = bool(answer)
        seen = []

        def pred(ex):
            seen.append(ex)
            return answer

        class Holder:
            @X.exception_filter
            def m(self, ex):
                return answer

        @X.exception_filter
        def decorated(ex):
            return answer
        for flt in (X.exception_filter(pred), decorated, Holder().m):
            for exc in (ValueError('v'), NeedsArgs(1, 2)):
                outcome = None
                try:
                    with flt:
                        raise exc
                except BaseException as e:
                    outcome = e
                check('filter-family/context',
                      (outcome is None) if accept else (outcome is exc),
                      detail=(accept, type(exc).__name__))
                if outcome is exc:
                    check('filter-family/traceback-has-raise-site',
                          any(f[2] == 'real_interpreter_family'
                              for f in frames(outcome.__traceback__)))
                for mode in ('own', 'other', 'none'):
                    outcome = None
                    try:
                        if mode == 'own':
                            try:
                                raise exc
                            except Exception as c:
                                flt(c)
                        elif mode == 'other':
                            try:
                                raise LookupError('x')
                            except LookupError:
                                flt(exc)
                        else:
                            flt(exc)
                    except BaseException as e:
                        outcome = e
                    check('filter-family/call',
                          (outcome is None) if accept else (outcome is exc),
                          detail=(accept, mode, type(exc).__name__))
    check('filter-family/decorator-keeps-name',
          decorated.__name__ == 'decorated')
    # remove_path_on_error on a real file system
    d = tempfile.mkdtemp()
    try:
        for kind in ('file', 'missing', 'dangling-symlink', 'dir'):
            p = os.path.join(d, kind)
            if kind == 'file':
                open(p, 'w').close()
            elif kind == 'dangling-symlink':
                os.symlink(os.path.join(d, 'nowhere'), p)
            elif kind == 'dir':
                os.mkdir(p)
            exc = ValueError('boom')
            outcome = None
            try:
                with F.remove_path_on_error(p):
                    raise exc
            except BaseException as e:
                outcome = e
            if kind == 'dir':
                check('rpoe-family/unremovable-path-error-propagates',
                      isinstance(outcome, OSError), detail=kind)
                os.rmdir(p)
            else:
                check('rpoe-family/original-reraised', outcome is exc,
                      detail=kind)
                check('rpoe-family/path-removed', not os.path.lexists(p),
                      detail=kind)
            p2 = os.path.join(d, kind + '2')
            open(p2, 'w').close()
            with F.remove_path_on_error(p2):
                pass
            check('rpoe-family/kept-without-error', os.path.exists(p2))
            os.unlink(p2)
            calls = []
            try:
                with F.remove_path_on_error(p, remove=calls.append):
                    raise exc
            except ValueError:
                pass
            check('rpoe-family/custom-remove-called-once', calls == [p],
                  detail=kind)
    finally:
        import shutil
        shutil.rmtree(d, ignore_errors=True)
    # raise_with_cause
    for how in ('explicit', 'active', 'none'):
        explicit = ValueError('c')
        active = KeyError('a')
        outcome = None
        try:
            if how == 'none':
                X.raise_with_cause(X.CausedByException, 'm')
            else:
                try:
                    raise active
                except KeyError:
                    if how == 'explicit':
                        X.raise_with_cause(X.CausedByException, 'm',
                                           cause=explicit)
                    else:
                        X.raise_with_cause(X.CausedByException, 'm')
        except X.CausedByException as e:
            outcome = e
        want = {'explicit': explicit, 'active': active, 'none': None}[how]
        check('rwc-family/cause', outcome is not None
              and outcome.cause is want and outcome.__cause__ is want,
              detail=how)


CANARIES = [
    dict(name='force-reraise-invents-new-object', file=EX,
         proofs=['save_and_reraise_for_every_body'],
         old='            raise self.value\n        finally:\n            self.value = None\n            self.tb = None',
         new='            raise self.type_(*self.value.args)\n        finally:\n            self.value = None\n            self.tb = None',
         expect='srr/'),
    dict(name='exit-suppresses-new-exception', file=EX,
         proofs=['save_and_reraise_for_every_body'],
         old="                                                             self.tb))\n            return False",
         new="                                                             self.tb))\n            return True",
         expect='srr/new-exception'),
    dict(name='log-condition-inverted', file=EX,
         proofs=['save_and_reraise_for_every_body'],
         old='        if exc_type is not None:\n            if self.reraise:',
         new='        if exc_type is not None:\n            if not self.reraise:',
         expect='srr/original-logged'),
    dict(name='filter-returns-negated', file=EX,
         proofs=['exception_filter_contract'],
         old='            return self._should_ignore_ex(exc_val)',
         new='            return not self._should_ignore_ex(exc_val)',
         expect='filter/suppressed'),
    dict(name='remove-after-bare-except', file=FU,
         proofs=['remove_path_on_error_contract'],
         old='    except Exception:\n        with excutils.save_and_reraise_exception():\n            remove(path)',
         new='    except Exception:\n        remove(path)', expect='rpoe/'),
    dict(name='cause-from-wrong-key', file=EX,
         proofs=['raise_with_cause_contract'],
         old="    raise exc_cls(message, *args, **kwargs) from kwargs.get('cause')",
         new="    raise exc_cls(message, *args, **kwargs) from kwargs.get('causes')",
         expect='rwc/'),
]

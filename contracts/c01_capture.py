# also: C05
"""C01 / C05 - the capture engine: CaptureRegion, EndCaptureRegion and the
FileInspector chunk loop, for a symbolic stream S, symbolic stream positions
and symbolic region geometry (no bound on stream length, chunk size, chunk
count, offsets or lengths).

Ghost state: the whole stream S (a symbolic byte string) and the positions
p0 <= p <= len(S); the chunk presented is S[p0:p] (possibly empty).

  in_sync(r, S, q)      r.data == S[r.offset : min(q, r.offset + r.length)]
                        (empty while q <= r.offset)
  tail_sync(r, S, c, q) r.data == S[max(c, q - r.length) : q]  and
                        r.offset == q - len(r.data)      (region created at c)

in_sync is inductive over chunks: it holds for a fresh region whose offset is
not behind the start of the chunk being processed, capture() preserves it for
any chunk, and at the end it gives exactly "what a region retains is the
stream's bytes at that region's offsets" (C01) and len(data) <= length (C05).
"""
from pyvc.api import (proof, load, fresh_int, fresh_bytes, fresh_bool, pick,
                      assume, check, cover, same, implies)

FI = 'oslo_utils/imageutils/format_inspector.py'


def in_sync(r, S, q):
    return r.data == S[r.offset:min(q, r.offset + r.length)]


def tail_sync(r, S, c, q):
    return (r.data == S[max(c, q - r.length):q]
            and r.offset == q - len(r.data))


def stream_and_chunk():
    S = fresh_bytes('S')
    p0 = fresh_int('p0', 0, len(S))
    p = fresh_int('p', p0, len(S))
    return S, p0, p


# ---------------------------------------------------------------------------
# CaptureRegion


@proof('C01', targets=[(FI, 'CaptureRegion.__init__'),
                       (FI, 'CaptureRegion.capture'),
                       (FI, 'CaptureRegion.complete')])
def capture_preserves_in_sync():
    M = load(FI)
    S, p0, p = stream_and_chunk()
    o = fresh_int('offset', 0)
    L = fresh_int('length', 0)
    r = M.CaptureRegion(o, L)
    check('init/fields', r.offset == o and r.length == L and r.data == b''
          and r.min_length is None)
    check('init/fresh-region-in-sync-if-not-behind',
          implies(o >= p0, in_sync(r, S, p0)))
    # an arbitrary in-sync state at p0
    r.data = S[o:min(p0, o + L)]
    r.capture(S[p0:p], p)
    check('capture/in-sync-after-any-chunk', in_sync(r, S, p))
    check('capture/retains-exactly-stream-bytes',
          r.data == S[r.offset:r.offset + len(r.data)])
    check('capture/bounded-by-length', len(r.data) <= L)
    check('capture/frame', r.offset == o and r.length == L
          and r.min_length is None)
    check('complete/iff-full', r.complete == (len(r.data) == L))
    check('complete/iff-stream-reached-end-of-region',
          r.complete == (p >= o + L or (L == 0)))


@proof('C01', targets=[(FI, 'CaptureRegion.capture')])
def capture_monotone_and_idempotent_on_empty():
    """An empty chunk changes nothing; a complete region stays complete and
    unchanged whatever follows."""
    M = load(FI)
    S, p0, p = stream_and_chunk()
    o = fresh_int('offset', 0)
    L = fresh_int('length', 0)
    r = M.CaptureRegion(o, L)
    r.data = S[o:min(p0, o + L)]
    before = r.data
    was_complete = r.complete
    r.capture(S[p0:p], p)
    check('capture/empty-chunk-is-noop', implies(p == p0, r.data == before))
    check('capture/complete-region-unchanged',
          implies(was_complete, r.data == before))
    check('capture/data-only-grows', len(r.data) >= len(before))


@proof('C01', targets=[(FI, 'CaptureRegion.complete')])
def capture_region_min_length_complete():
    M = load(FI)
    n = fresh_int('n', 0, 100000)
    L = fresh_int('length', 0)
    ml = fresh_int('min_length', 0)
    r = M.CaptureRegion(fresh_int('offset', 0), L, min_length=ml)
    r.data = fresh_bytes('data', length=n)
    check('complete/min_length', r.complete == (ml <= n))


# ---------------------------------------------------------------------------
# EndCaptureRegion


@proof('C01', targets=[(FI, 'EndCaptureRegion.__init__'),
                       (FI, 'EndCaptureRegion.capture'),
                       (FI, 'EndCaptureRegion.complete'),
                       (FI, 'EndCaptureRegion.finish')])
def end_capture_tail_window():
    M = load(FI)
    S, p0, p = stream_and_chunk()
    L = fresh_int('length', 1)
    c = fresh_int('created_at', 0, p0)
    r = M.EndCaptureRegion(L)
    check('end-init/fields', r.length == L and r.data == b''
          and r.complete == False)  # noqa: E712
    # arbitrary tail-synchronised state at p0
    r.data = S[max(c, p0 - L):p0]
    r.offset = p0 - len(r.data)
    r.capture(S[p0:p], p)
    check('end-capture/tail-window', tail_sync(r, S, c, p))
    check('end-capture/retains-exactly-stream-bytes',
          r.data == S[r.offset:r.offset + len(r.data)])
    check('end-capture/bounded-by-length', len(r.data) <= L)
    check('end-capture/length-unchanged', r.length == L)
    check('end-capture/not-complete-before-eof', r.complete == False)  # noqa
    r.finish()
    check('end-finish/complete-iff-window-full',
          r.complete == (p - c >= L))
    check('end-finish/data-unchanged', tail_sync(r, S, c, p))


# ---------------------------------------------------------------------------
# FileInspector: _capture / eat_chunk / finish on an arbitrary region set


def make_regions(M, S, p0, insp, kinds):
    """Add one region per kind, each in an arbitrary synchronised state at
    stream position p0.  Returns [(name, region, kind, ghost)]."""
    out = []
    for i, kind in enumerate(kinds):
        name = 'r%d' % i
        if kind == 'plain':
            o = fresh_int(name + '.offset', 0)
            L = fresh_int(name + '.length', 0)
            r = M.CaptureRegion(o, L)
            r.data = S[o:min(p0, o + L)]
            g = None
        else:
            L = fresh_int(name + '.length', 1)
            c = fresh_int(name + '.created_at', 0, p0)
            r = M.EndCaptureRegion(L)
            r.data = S[max(c, p0 - L):p0]
            r.offset = p0 - len(r.data)
            g = c
        insp.new_region(name, r)
        out.append((name, r, kind, g))
    return out


@proof('C01', targets=[(FI, 'FileInspector.__init__'),
                       (FI, 'FileInspector.eat_chunk'),
                       (FI, 'FileInspector._capture'),
                       (FI, 'FileInspector.new_region'),
                       (FI, 'FileInspector.region_name'),
                       (FI, 'FileInspector.region_complete'),
                       (FI, 'FileInspector.complete'),
                       (FI, 'FileInspector.context_info')])
def eat_chunk_keeps_every_region_in_sync():
    M = load(FI)
    S, p0, p = stream_and_chunk()

    class Spy(M.RawFileInspector):
        def region_complete(self, name):
            self.completed.append(name)

    insp = Spy()
    insp.completed = []
    insp._total_count = p0
    kinds = pick('regions', [[], ['plain'], ['end'], ['plain', 'plain'],
                             ['plain', 'end'], ['plain', 'plain', 'end']])
    regs = make_regions(M, S, p0, insp, kinds)
    was_complete = [r.complete for (_n, r, _k, _g) in regs]
    insp.eat_chunk(S[p0:p])
    check('eat_chunk/position', insp._total_count == p)
    check('eat_chunk/not-finished', insp._finished == False)  # noqa: E712
    check('eat_chunk/region-set-unchanged',
          list(insp._capture_regions.keys()) == [n for (n, _r, _k, _g)
                                                 in regs])
    for (name, r, kind, g), wc in zip(regs, was_complete):
        if kind == 'plain':
            check('eat_chunk/plain-region-in-sync', in_sync(r, S, p))
        else:
            check('eat_chunk/end-region-tail-sync', tail_sync(r, S, g, p))
        check('eat_chunk/region-bounded', len(r.data) <= r.length)
        newly = r.complete and not wc
        check('eat_chunk/region_complete-called-iff-newly-complete',
              insp.completed.count(name) == (1 if newly else 0))
    info = insp.context_info
    check('context_info/reports-retained-bytes',
          [info[n] for (n, _r, _k, _g) in regs]
          == [len(r.data) for (_n, r, _k, _g) in regs]
          and len(info) == len(regs))
    check('complete/all-regions', insp.complete ==
          all([r.complete for (_n, r, _k, _g) in regs]))


@proof('C01', targets=[(FI, 'FileInspector.eat_chunk'),
                       (FI, 'FileInspector._capture'),
                       (FI, 'FileInspector.post_process')])
def eat_chunk_feeds_regions_added_by_post_process():
    """A region created by post_process while chunk S[p0:p] is being
    processed is presented with that chunk exactly once: it ends up in sync at
    p provided its offset is not behind p0 (the precondition every
    new_region call site outside _initialize has to establish)."""
    M = load(FI)
    S, p0, p = stream_and_chunk()
    o1 = fresh_int('old.offset', 0)
    L1 = fresh_int('old.length', 0)
    o2 = fresh_int('new.offset', 0)
    L2 = fresh_int('new.length', 0)
    add = fresh_bool('post_process_adds_region')

    class Dyn(M.RawFileInspector):
        def post_process(self):
            self.pp_calls += 1
            if add and not self.has_region('new'):
                self.new_region('new', M.CaptureRegion(o2, L2))

        def region_complete(self, name):
            self.completed.append(name)

    insp = Dyn()
    insp.pp_calls = 0
    insp.completed = []
    insp._total_count = p0
    old = M.CaptureRegion(o1, L1)
    old.data = S[o1:min(p0, o1 + L1)]
    insp.new_region('old', old)
    old_was_complete = old.complete
    insp.eat_chunk(S[p0:p])
    check('eat_chunk/post_process-called', insp.pp_calls >= 1)
    check('eat_chunk/old-region-fed-exactly-once', in_sync(old, S, p))
    if add:
        new = insp.region('new')
        check('eat_chunk/new-region-in-sync-if-not-behind-chunk',
              implies(o2 >= p0, in_sync(new, S, p)))
        check('eat_chunk/new-region-complete-callback',
              insp.completed.count('new') == (1 if new.complete else 0))
    check('eat_chunk/old-region-complete-callback',
          insp.completed.count('old')
          == (1 if (old.complete and not old_was_complete) else 0))


@proof('C01', targets=[(FI, 'FileInspector.eat_chunk'),
                       (FI, 'FileInspector.delete_region'),
                       (FI, 'FileInspector.new_region')])
def eat_chunk_tracks_regions_by_object_not_by_name():
    """post_process may delete a region and re-create one under the same
    name (VMDK relocates its descriptor this way).  The replacement is a new
    region: it is fed the current chunk, and region_complete(name) fires when
    *it* becomes complete, whether or not the deleted one had been
    complete."""
    M = load(FI)
    S, p0, p = stream_and_chunk()
    o1 = fresh_int('old.offset', 0)
    L1 = fresh_int('old.length', 0)
    o2 = fresh_int('new.offset', p0)
    L2 = fresh_int('new.length', 0)

    class Relocating(M.RawFileInspector):
        def post_process(self):
            if not self.relocated:
                self.relocated = True
                self.delete_region('d')
                self.new_region('d', M.CaptureRegion(o2, L2))

        def region_complete(self, name):
            self.completed.append(name)

    insp = Relocating()
    insp.relocated = False
    insp.completed = []
    insp._total_count = p0
    old = M.CaptureRegion(o1, L1)
    old.data = S[o1:min(p0, o1 + L1)]
    insp.new_region('d', old)
    insp.eat_chunk(S[p0:p])
    new = insp.region('d')
    check('eat_chunk/replacement-is-the-registered-region', new is not old)
    check('eat_chunk/replacement-in-sync', in_sync(new, S, p))
    check('eat_chunk/replacement-completion-reported-exactly-once',
          insp.completed.count('d') == (1 if new.complete else 0))


@proof('C01', targets=[(FI, 'FileInspector.finish'),
                       (FI, 'FileInspector._capture'),
                       (FI, 'FileInspector.eat_chunk')])
def finish_is_final():
    M = load(FI)
    S, p0, p = stream_and_chunk()
    insp = M.RawFileInspector()
    insp._total_count = p0
    regs = make_regions(M, S, p0, insp, ['plain', 'end'])
    insp.finish()
    check('finish/flag', insp._finished == True)  # noqa: E712
    check('finish/end-regions-marked', regs[1][1]._complete == True)  # noqa
    check('finish/plain-region-untouched', in_sync(regs[0][1], S, p0))
    check('finish/end-region-data-untouched',
          tail_sync(regs[1][1], S, regs[1][3], p0))
    d0 = regs[0][1].data
    d1 = regs[1][1].data
    try:
        insp.eat_chunk(S[p0:p])
    except RuntimeError:
        check('finish/no-capture-after-finish',
              regs[0][1].data == d0 and regs[1][1].data == d1)
        return
    check('finish/eat_chunk-after-finish-must-raise', False)


@proof('C01', targets=[(FI, 'FileInspector.complete'),
                       (FI, 'FileInspector.context_info'),
                       (FI, 'FileInspector.virtual_size'),
                       (FI, 'FileInspector.actual_size'),
                       (FI, 'FileInspector.has_region'),
                       (FI, 'FileInspector.region')])
def queries_are_pure():
    """'queries made in between' cannot change anything: every observer of
    the base class leaves the inspector and its regions as they were."""
    M = load(FI)
    S, p0, p = stream_and_chunk()
    insp = M.RawFileInspector()
    insp._total_count = p0
    regs = make_regions(M, S, p0, insp, ['plain', 'end'])

    def snap():
        return [insp._total_count, insp._finished,
                list(insp._capture_regions.keys()),
                [(r, r.offset, r.length, r.data, r.min_length)
                 for r in insp._capture_regions.values()],
                list(insp._safety_checks.keys())]
    before = snap()
    insp.complete
    insp.context_info
    insp.virtual_size
    insp.actual_size
    insp.format_match
    insp.has_region('r0')
    insp.region('r1')
    str(insp)
    check('queries/pure', same(snap(), before))
    check('queries/raw-virtual-size-is-position',
          insp.virtual_size == p0 and insp.actual_size == p0)


CANARIES = [
    dict(name='capture-without-lead-gap', file=FI,
         proofs=['capture_preserves_in_sync'],
         old='            self.data += chunk[lead_gap:]',
         new='            self.data += chunk', expect='capture/in-sync'),
    dict(name='capture-truncates-one-byte-late', file=FI,
         proofs=['capture_preserves_in_sync'],
         old='            self.data = self.data[:self.length]',
         new='            self.data = self.data[:self.length + 1]',
         expect='capture/'),
    dict(name='end-region-keeps-one-byte-more', file=FI,
         proofs=['end_capture_tail_window'],
         old='self.data = self.data[0 - self.length:]',
         new='self.data = self.data[0 - self.length - 1:]',
         expect='end-capture/'),
    dict(name='position-incremented-after-capture', file=FI,
         proofs=['eat_chunk_keeps_every_region_in_sync'],
         old="        self._total_count += len(chunk)\n\n        # Run through the regions we know of to see if they want this\n        # data\n        self._capture(chunk)\n",
         new="        # Run through the regions we know of to see if they want this\n        # data\n        self._capture(chunk)\n        self._total_count += len(chunk)\n",
         expect='eat_chunk/'),
    dict(name='completion-tracked-by-name', file=FI,
         proofs=['eat_chunk_tracks_regions_by_object_not_by_name'],
         edits=[("        pre_complete = {region for region in self._capture_regions.values()\n",
                 "        pre_complete = {name for name, region in self._capture_regions.items()\n"),
                ("        post_complete = {region for region in self._capture_regions.values()\n",
                 "        post_complete = {name for name, region in self._capture_regions.items()\n"),
                ("        for region in post_complete - pre_complete:\n            self.region_complete(self.region_name(region))",
                 "        for region in post_complete - pre_complete:\n            self.region_complete(region)")],
         expect='replacement-completion'),
    dict(name='new-regions-not-fed-current-chunk', file=FI,
         proofs=['eat_chunk_feeds_regions_added_by_post_process'],
         old='        if new_regions:\n', new='        if False:\n',
         expect='eat_chunk/new-region'),
]


# Code-independent schema lemma, checked by the Lean 4 kernel on every run:
# init + step (+ monotone rejection, uniqueness of the verdict in R) imply
# that any two chunkings of a stream end with the same verdict.  The
# hypotheses are the obligation families discharged per inspector class.
LEMMAS = [
    dict(name='schema/init+step+uniqueness=>every-chunking',
         props=['C01'], file='lean/ChunkInduction.lean',
         theorems=['run_none', 'run_spec', 'chunk_independent']),
]

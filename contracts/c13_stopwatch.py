"""C13 - StopWatch obeys its state machine under every call sequence.

Contracts on the real methods of oslo_utils.timeutils.StopWatch.  Every proof
starts from an arbitrary watch satisfying the class invariant INV (symbolic
timestamps, any state, any duration, any split history) and a clock that
returns an arbitrary real on every call (`monotone` is a ghost flag under
which every reading is >= the previous one and >= every timestamp stored in
the watch).  One obligation set per method + "INV is preserved" covers call
sequences of every length.

INV(w):
  _state in {None, STARTED, STOPPED}
  _state is None  => _started_at is None and _stopped_at is None and no splits
  _state != None  => _started_at is a reading
  _state STOPPED  => _stopped_at is a reading
  _duration is None or _duration >= 0
  _splits is a tuple of Split; last.elapsed >= 0, last.length >= 0

Floats are treated as reals (A-FLOAT).
"""
from pyvc.api import (proof, load, blank, patch, pick, fresh_real, fresh_bool,
                      assume, check, cover, same, state_of, symtuple, implies,
                      ite)

TU = 'oslo_utils/timeutils.py'
STARTED = 'STARTED'
STOPPED = 'STOPPED'


class Ghost:
    pass


def arbitrary_watch():
    """An arbitrary StopWatch satisfying INV, and the ghost clock."""
    T = load(TU)
    g = Ghost()
    g.T = T
    g.readings = []
    g.mono = fresh_bool('monotone')
    # built by the real constructor (whatever else it sets up stays set
    # up), then moved into an arbitrary state satisfying INV
    if pick('has_duration', [False, True]):
        w = T.StopWatch(fresh_real('duration', lo=0))
    else:
        w = T.StopWatch()
    state = pick('state', [None, STARTED, STOPPED])
    w._state = state
    g.t_prev = fresh_real('t_prev')       # the latest reading handed out
    if state is None:
        w._started_at = None
        w._stopped_at = None
        w._splits = ()
    else:
        w._started_at = fresh_real('started_at')
        if state == STOPPED or pick('stale_stopped_at', [False, True]):
            w._stopped_at = fresh_real('stopped_at')
            if g.mono:
                assume(w._stopped_at <= g.t_prev)
                if state == STOPPED:
                    assume(w._started_at <= w._stopped_at)
        else:
            w._stopped_at = None
        if g.mono:
            assume(w._started_at <= g.t_prev)
        if pick('has_splits', [False, True]):
            e_last = fresh_real('last_split_elapsed', lo=0)
            l_last = fresh_real('last_split_length', lo=0)
            if g.mono:
                # the last split was taken at a reading <= t_prev
                assume(e_last <= g.t_prev - w._started_at)
            g.last = T.Split(e_last, l_last)
            w._splits = symtuple('earlier_splits', (g.last,),
                                 filler=T.Split(0.0, 0.0))
        else:
            w._splits = ()

    def clock():
        t = fresh_real('reading%d' % (len(g.readings) + 1))
        if g.mono:
            assume(t >= g.t_prev)
        g.t_prev = t
        g.readings.append(t)
        return t
    patch(T, 'now', clock)
    return T, w, g


def check_inv(w, T, tag):
    st = w._state
    check(tag + '/inv/state-domain',
          st is None or st == STARTED or st == STOPPED)
    if st is None:
        check(tag + '/inv/idle-has-no-timestamps',
              w._started_at is None and w._stopped_at is None
              and len(w._splits) == 0)
    else:
        check(tag + '/inv/started_at-set', w._started_at is not None)
        if st == STOPPED:
            check(tag + '/inv/stopped_at-set', w._stopped_at is not None)
    check(tag + '/inv/duration', w._duration is None or w._duration >= 0)
    check(tag + '/inv/splits-is-tuple', isinstance(w._splits, tuple))
    if w._splits:
        last = w._splits[-1]
        check(tag + '/inv/last-split', isinstance(last, T.Split)
              and last.elapsed >= 0 and last.length >= 0)


def spec_elapsed(w, now_reading):
    """max(0, (stop instant | now) - start)"""
    end = w._stopped_at if w._state == STOPPED else now_reading
    d = end - w._started_at
    return ite(d > 0, d, 0.0)


# ---------------------------------------------------------------------------

@proof('C13', targets=[(TU, 'StopWatch.__init__')])
def init_contract():
    T = load(TU)
    if pick('duration_given', [False, True]):
        d = fresh_real('duration')
        try:
            w = T.StopWatch(d)
        except ValueError:
            check('init/valueerror-iff-negative', d < 0)
            return
        check('init/accepts-nonnegative', d >= 0)
        check('init/duration-stored', w._duration == d)
    else:
        w = T.StopWatch()
        check('init/no-duration', w._duration is None)
    check('init/idle', w._state is None and w._splits == ())
    check_inv(w, T, 'init')


@proof('C13', targets=[(TU, 'StopWatch.start')])
def start_contract():
    T, w, g = arbitrary_watch()
    before = state_of(w)
    old_state = w._state
    r = w.start()
    check('start/returns-self', r is w)
    check('start/never-raises-and-is-started', w._state == STARTED)
    if old_state == STARTED:
        check('start/already-started-is-noop', same(state_of(w), before))
        check('start/already-started-reads-no-clock', len(g.readings) == 0)
    else:
        check('start/one-clock-reading', len(g.readings) == 1)
        check('start/fresh-start-instant', w._started_at == g.readings[0])
        check('start/clears-stop-instant', w._stopped_at is None)
        check('start/clears-splits', w._splits == ())
        check('start/duration-kept', same(w._duration, before['_duration']))
    check_inv(w, T, 'start')


@proof('C13', targets=[(TU, 'StopWatch.stop')])
def stop_contract():
    T, w, g = arbitrary_watch()
    before = state_of(w)
    old_state = w._state
    try:
        r = w.stop()
    except RuntimeError:
        check('stop/runtimeerror-only-when-never-started', old_state is None)
        check('stop/raise-leaves-watch-unchanged', same(state_of(w), before))
        return
    check('stop/legal-state', old_state is not None)
    check('stop/returns-self', r is w)
    check('stop/is-stopped', w._state == STOPPED)
    if old_state == STOPPED:
        check('stop/idempotent', same(state_of(w), before))
        check('stop/idempotent-reads-no-clock', len(g.readings) == 0)
    else:
        check('stop/one-clock-reading', len(g.readings) == 1)
        check('stop/stop-instant-is-now', w._stopped_at == g.readings[0])
        check('stop/start-instant-kept',
              same(w._started_at, before['_started_at']))
        check('stop/splits-kept', same(w._splits, before['_splits']))
        check('stop/duration-kept', same(w._duration, before['_duration']))
    check_inv(w, T, 'stop')


@proof('C13', targets=[(TU, 'StopWatch.resume')])
def resume_contract():
    T, w, g = arbitrary_watch()
    before = state_of(w)
    old_state = w._state
    try:
        r = w.resume()
    except RuntimeError:
        check('resume/runtimeerror-only-when-not-stopped',
              old_state != STOPPED)
        check('resume/raise-leaves-watch-unchanged',
              same(state_of(w), before))
        return
    check('resume/legal-state', old_state == STOPPED)
    check('resume/returns-self', r is w)
    check('resume/is-started', w._state == STARTED)
    check('resume/reads-no-clock', len(g.readings) == 0)
    check('resume/only-state-changes',
          same(w._started_at, before['_started_at'])
          and same(w._stopped_at, before['_stopped_at'])
          and same(w._splits, before['_splits'])
          and same(w._duration, before['_duration']))
    check_inv(w, T, 'resume')


@proof('C13', targets=[(TU, 'StopWatch.restart')])
def restart_contract():
    T, w, g = arbitrary_watch()
    before = state_of(w)
    r = w.restart()
    check('restart/returns-self', r is w)
    check('restart/is-started', w._state == STARTED)
    check('restart/fresh-start-instant',
          len(g.readings) >= 1 and w._started_at == g.readings[-1])
    check('restart/clears-splits', w._splits == ())
    check('restart/clears-stop-instant', w._stopped_at is None)
    check('restart/duration-kept', same(w._duration, before['_duration']))
    check_inv(w, T, 'restart')


@proof('C13', targets=[(TU, 'StopWatch.elapsed'),
                       (TU, 'StopWatch._delta_seconds')])
def elapsed_contract():
    T, w, g = arbitrary_watch()
    before = state_of(w)
    old_state = w._state
    use_max = pick('maximum_given', [False, True])
    maximum = fresh_real('maximum') if use_max else None
    try:
        e = w.elapsed(maximum) if use_max else w.elapsed()
    except RuntimeError:
        check('elapsed/runtimeerror-only-when-never-started',
              old_state is None)
        check('elapsed/raise-leaves-watch-unchanged',
              same(state_of(w), before))
        return
    check('elapsed/legal-state', old_state is not None)
    check('elapsed/pure', same(state_of(w), before))
    check('elapsed/never-negative', e >= 0)
    if old_state == STOPPED:
        check('elapsed/stopped-reads-no-clock', len(g.readings) == 0)
        raw = spec_elapsed(w, None)
    else:
        check('elapsed/running-reads-clock-once', len(g.readings) == 1)
        raw = spec_elapsed(w, g.readings[0])
    if use_max:
        # "never exceeds a requested maximum" - for a non-negative maximum
        # (a negative one contradicts "never negative"; cover below)
        check('elapsed/never-exceeds-maximum',
              implies(maximum >= 0, e <= maximum))
        check('elapsed/value-with-maximum',
              e == ite(raw > maximum, ite(maximum > 0, maximum, 0.0), raw))
        if maximum < 0:
            cover('elapsed/negative-maximum-reachable')
    else:
        check('elapsed/value', e == raw)
        if old_state == STOPPED:
            check('elapsed/monotone-clock-exact-stopped',
                  implies(g.mono, e == w._stopped_at - w._started_at))
        else:
            check('elapsed/monotone-clock-exact-running',
                  implies(g.mono, e == g.readings[0] - w._started_at))


@proof('C13', targets=[(TU, 'StopWatch.leftover')])
def leftover_contract():
    T, w, g = arbitrary_watch()
    before = state_of(w)
    old_state = w._state
    rn = pick('return_none', [False, True])
    try:
        v = w.leftover(return_none=rn)
    except RuntimeError:
        check('leftover/runtimeerror-iff-illegal',
              old_state != STARTED or (w._duration is None and not rn))
        check('leftover/raise-leaves-watch-unchanged',
              same(state_of(w), before))
        return
    check('leftover/legal-state', old_state == STARTED)
    check('leftover/pure', same(state_of(w), before))
    if w._duration is None:
        check('leftover/none-when-asked', rn and v is None)
    else:
        el = spec_elapsed(w, g.readings[0])
        d = w._duration - el
        check('leftover/value', v == ite(d > 0, d, 0.0))
        check('leftover/never-negative', v >= 0)


@proof('C13', targets=[(TU, 'StopWatch.expired')])
def expired_contract():
    T, w, g = arbitrary_watch()
    before = state_of(w)
    old_state = w._state
    try:
        v = w.expired()
    except RuntimeError:
        check('expired/runtimeerror-only-when-never-started',
              old_state is None)
        check('expired/raise-leaves-watch-unchanged',
              same(state_of(w), before))
        return
    check('expired/legal-state', old_state is not None)
    check('expired/pure', same(state_of(w), before))
    if w._duration is None:
        check('expired/false-without-duration', v == False)  # noqa: E712
    else:
        now_r = g.readings[0] if old_state == STARTED else None
        check('expired/iff-elapsed-exceeds-duration',
              v == (spec_elapsed(w, now_r) > w._duration))


@proof('C13', targets=[(TU, 'StopWatch.split'), (TU, 'Split.__init__'),
                       (TU, 'Split.elapsed'), (TU, 'Split.length')])
def split_contract():
    T, w, g = arbitrary_watch()
    before = state_of(w)
    old_state = w._state
    old_splits = w._splits
    try:
        s = w.split()
    except RuntimeError:
        check('split/runtimeerror-only-when-not-started',
              old_state != STARTED)
        check('split/raise-leaves-watch-unchanged',
              same(state_of(w), before))
        return
    check('split/legal-state', old_state == STARTED)
    check('split/one-clock-reading', len(g.readings) == 1)
    e = spec_elapsed(w, g.readings[0])
    check('split/is-a-Split', isinstance(s, T.Split))
    check('split/elapsed-is-elapsed-now', s.elapsed == e)
    check('split/appended-last', w._splits[-1] is s
          and len(w._splits) == len(old_splits) + 1)
    if old_splits:
        prev = old_splits[-1]
        check('split/earlier-splits-kept', w._splits[-2] is prev)
        d = e - prev.elapsed
        check('split/length-is-difference', s.length == ite(d > 0, d, 0.0))
        check('split/monotone-clock-nondecreasing',
              implies(g.mono, s.elapsed >= prev.elapsed))
        check('split/monotone-clock-length-exact',
              implies(g.mono, s.length == s.elapsed - prev.elapsed))
    else:
        check('split/first-length-is-elapsed', s.length == e)
    check('split/rest-unchanged',
          same(w._started_at, before['_started_at'])
          and same(w._stopped_at, before['_stopped_at'])
          and same(w._state, before['_state'])
          and same(w._duration, before['_duration']))
    check('split/property-returns-tuple', w.splits is w._splits)
    check_inv(w, T, 'split')


@proof('C13', targets=[(TU, 'StopWatch.has_started'),
                       (TU, 'StopWatch.has_stopped'),
                       (TU, 'StopWatch.splits')])
def queries_contract():
    T, w, g = arbitrary_watch()
    before = state_of(w)
    check('queries/has_started', w.has_started() == (w._state == STARTED))
    check('queries/has_stopped', w.has_stopped() == (w._state == STOPPED))
    check('queries/splits', w.splits is w._splits)
    check('queries/pure', same(state_of(w), before)
          and len(g.readings) == 0)


@proof('C13', targets=[(TU, 'StopWatch.__enter__'),
                       (TU, 'StopWatch.__exit__')])
def context_manager_contract():
    T, w, g = arbitrary_watch()
    before = state_of(w)
    old_state = w._state
    r = w.__enter__()
    check('enter/returns-self-started', r is w and w._state == STARTED)
    if old_state == STARTED:
        check('enter/already-started-is-noop', same(state_of(w), before))
    else:
        check('enter/clears-splits', w._splits == ())
    check_inv(w, T, 'enter')
    mid = state_of(w)
    # the body may have stopped the watch, or not
    body_stops = pick('body_stops', [False, True])
    if body_stops:
        w.stop()
    out = w.__exit__(None, None, None)
    check('exit/never-raises-and-stops', w._state == STOPPED)
    check('exit/does-not-suppress', not out)
    check_inv(w, T, 'exit')


@proof('C13', targets=[(TU, 'StopWatch.__exit__')])
def exit_on_idle_watch():
    """__exit__ on a watch that was never started swallows the RuntimeError
    of stop() and leaves the watch as it was."""
    T, w, g = arbitrary_watch()
    before = state_of(w)
    old_state = w._state
    out = w.__exit__(None, None, None)
    check('exit-any/does-not-suppress', not out)
    if old_state is None:
        check('exit-any/idle-unchanged', same(state_of(w), before))
    else:
        check('exit-any/stopped', w._state == STOPPED)
    check_inv(w, T, 'exit-any')


CANARIES = [
    dict(name='delta-not-clamped', file=TU, proofs=['elapsed_contract'],
         old='return max(0.0, later - earlier)',
         new='return later - earlier', expect='elapsed/never-negative'),
    dict(name='resume-resets-start', file=TU, proofs=['resume_contract'],
         old="            self._state = self._STARTED\n            return self\n        else:\n            raise RuntimeError(\"Can not resume",
         new="            self._state = self._STARTED\n            self._started_at = now()\n            return self\n        else:\n            raise RuntimeError(\"Can not resume",
         expect='resume/'),
    dict(name='expired-uses-ge', file=TU, proofs=['expired_contract'],
         old='return self.elapsed() > self._duration',
         new='return self.elapsed() >= self._duration',
         expect='expired/iff'),
]

"""C18 - the spec matcher implements its documented operator table.

* op_methods: key set == documented operators; every entry proved to be the
  documented relation on SYMBOLIC operands (float() and ast.literal_eval are
  uninterpreted / abstract: A-FLOAT, A-LITERAL_EVAL) - all four <range-in>
  bracket combinations with the right strictness at each end, wrong arity /
  inverted bounds / bad brackets -> TypeError;
* match(): single token -> plain equality with the value; otherwise dispatch
  through op_methods with the remaining tokens; ParseException -> equality
  with the whole spec (pyparsing abstract: A-PYPARSING);
* make_grammar(): executed against a recording stand-in for pyparsing; the
  recorded structure is checked for the literal-order property (no earlier
  literal of a MatchFirst chain is a proper prefix of a later one; the
  alternatives of `expr` are tried longest-operator-first).
* bounded family: the real parser on operators x operands x whitespace.
"""
from pyvc.api import (proof, bounded, load, model, fresh_str, fresh_real,
                      fresh_int, fresh_bool, pick, assume, check, implies,
                      conj, disj, neg, parses_as_float, float_of, rng)

SM = 'oslo_utils/specs_matcher.py'

NUMERIC = ['=', '!=', '<=', '<', '==', '>=', '>']
STRING = ['s!=', 's<', 's<=', 's==', 's>', 's>=']
OTHER = ['<all-in>', '<in>', '<or>', '<range-in>']


class _NS:
    pass


@proof('C18', targets=[(SM, 'op_methods')],
       assumes=['A-FLOAT: float(s) is an uninterpreted real, ValueError when '
                's does not parse'])
def operator_table_numeric_and_string():
    M = load(SM)
    check('table/exactly-the-documented-operators',
          sorted(M.op_methods.keys()) == sorted(NUMERIC + STRING + OTHER))
    op = pick('operator', NUMERIC + STRING + ['<in>'])
    x = fresh_str('value')
    y = fresh_str('operand')
    f = M.op_methods[op]
    if op in NUMERIC:
        raised = None
        try:
            r = f(x, y)
        except ValueError as e:
            raised = e
        if raised is not None:
            check('numeric/valueerror-only-for-non-numbers',
                  neg(conj(parses_as_float(x), parses_as_float(y))))
            return
        a = float_of(x)
        b = float_of(y)
        want = {'=': a >= b, '!=': a != b, '<=': a <= b, '<': a < b,
                '==': a == b, '>=': a >= b, '>': a > b}[op]
        check('numeric/%s-is-the-documented-comparison' % op, r == want)
    elif op in STRING:
        r = f(x, y)
        want = {'s!=': x != y, 's<': x < y, 's<=': x <= y, 's==': x == y,
                's>': x > y, 's>=': x >= y}[op]
        check('string/%s-is-the-documented-comparison' % op, r == want)
    else:
        r = f(x, y)
        check('in/substring-of-the-value', r == (y in x))


@proof('C18', targets=[(SM, 'op_methods')])
def operator_or_is_equality_with_any_alternative():
    M = load(SM)
    n = pick('alternatives', [1, 2, 3, 5])
    x = fresh_str('value')
    ys = [fresh_str('alt%d' % i) for i in range(n)]
    r = M.op_methods['<or>'](x, *ys)
    check('or/equals-any-alternative', r == disj([x == y for y in ys]))


@proof('C18', targets=[(SM, '_all_in')], native=False,
       assumes=['A-LITERAL_EVAL: ast.literal_eval returns the Python value '
                'the text spells'])
def all_in_contract():
    M = load(SM)
    shape = pick('value_parses_to', ['list', 'str', 'dict', 'tuple'])
    items = [fresh_str('item%d' % i) for i in range(3)]
    parsed = {'list': items, 'str': 'abc', 'dict': {'a': 1},
              'tuple': ('a', 'b')}[shape]
    a = _NS()
    a.literal_eval = lambda text: parsed
    model(M, 'ast', a)
    n = pick('wanted', [1, 2, 3])
    wanted = [fresh_str('wanted%d' % i) for i in range(n)]
    raised = None
    try:
        r = M._all_in('the text', *wanted)
    except TypeError as e:
        raised = e
    if shape != 'list':
        check('all-in/typeerror-unless-a-list', raised is not None)
        return
    check('all-in/no-error-for-a-list', raised is None)
    check('all-in/every-listed-item-present',
          r == conj([disj([w == i for i in items]) for w in wanted]))
    check('all-in/is-the-table-entry', M.op_methods['<all-in>'] is M._all_in)


@proof('C18', targets=[(SM, '_range_in')], native=False,
       assumes=['A-FLOAT', 'A-LITERAL_EVAL'])
def range_in_contract():
    M = load(SM)
    v = fresh_real('value')
    a = _NS()
    a.literal_eval = lambda text: v
    model(M, 'ast', a)
    lo_s = fresh_str('low')
    hi_s = fresh_str('high')
    assume(parses_as_float(lo_s), parses_as_float(hi_s))
    lo = float_of(lo_s)
    hi = float_of(hi_s)
    opening = pick('opening', ['[', '(', '{', ']'])
    closing = pick('closing', [']', ')', '}', '['])
    arity = pick('arity', [4, 3, 5])
    args = [opening, lo_s, hi_s, closing]
    if arity == 3:
        args = args[:3]
    elif arity == 5:
        args = args + ['x']
    raised = None
    try:
        r = M._range_in('the text', *args)
    except TypeError as e:
        raised = e
    bad = (arity != 4 or opening not in ('[', '(')
           or closing not in (']', ')'))
    if raised is not None:
        check('range/typeerror-only-for-malformed-or-inverted',
              bad or lo > hi)
        return
    check('range/well-formed', (not bad) and lo <= hi)
    lower = (v >= lo) if opening == '[' else (v > lo)
    upper = (v <= hi) if closing == ']' else (v < hi)
    check('range/membership-with-the-given-ends', r == conj(lower, upper))
    check('range/is-the-table-entry',
          M.op_methods['<range-in>'] is M._range_in)


@proof('C18', targets=[(SM, 'match')], native=False,
       assumes=['A-PYPARSING: parseString returns the token list of the '
                'spec or raises ParseException'])
def match_dispatch():
    M = load(SM)
    value = fresh_str('value')
    spec = fresh_str('spec')
    outcome = pick('parse', ['exception', 'one-token', 'unary', 'or',
                             'all-in', 'range'])
    t1 = fresh_str('token1')
    t2 = fresh_str('token2')

    class ParseException(Exception):
        pass
    pp = _NS()
    pp.ParseException = ParseException
    model(M, 'pyparsing', pp)
    calls = []
    op = None
    if outcome == 'unary':
        op = pick('operator', NUMERIC + STRING + ['<in>'])
        tokens = [op, t1]
    elif outcome == 'or':
        op = '<or>'
        tokens = [op, t1, t2]
    elif outcome == 'all-in':
        op = '<all-in>'
        tokens = [op, t1, t2]
    elif outcome == 'range':
        op = '<range-in>'
        tokens = [op, '[', t1, t2, ']']
    elif outcome == 'one-token':
        tokens = [t1]
    else:
        tokens = None

    class Expr:
        def parseString(self, s):
            calls.append(s)
            if tokens is None:
                raise ParseException('no parse')
            return list(tokens)
    model(M, 'make_grammar', lambda: Expr())
    if op is not None:
        table = dict(M.op_methods)
        table[op] = lambda *a: ('called', op, a)
        model(M, 'op_methods', table)
    r = M.match(value, spec)
    check('match/parses-the-spec-once', len(calls) == 1 and calls[0] is spec)
    if outcome == 'exception':
        check('match/unparsable-spec-is-plain-equality', r == (spec == value))
    elif outcome == 'one-token':
        check('match/no-operator-is-plain-equality', r == (t1 == value))
    else:
        check('match/dispatches-operator-with-value-then-operands',
              r[0] == 'called' and r[1] == op and r[2][0] is value
              and list(r[2][1:]) == tokens[1:])


class Rec:
    """Recording stand-in for pyparsing elements."""

    def __init__(self, kind, parts):
        self.kind = kind
        self.parts = parts
        self.action = None

    def __or__(self, other):
        left = self.parts if self.kind == 'first' else [self]
        right = other.parts if other.kind == 'first' else [other]
        return Rec('first', left + right)

    def __add__(self, other):
        left = self.parts if self.kind == 'and' else [self]
        right = other.parts if other.kind == 'and' else [other]
        return Rec('and', left + right)

    def __invert__(self):
        return Rec('not', [self])

    def setParseAction(self, fn):
        self.action = fn
        return self


def leading_literals(e):
    """Operator literals an alternative can start with."""
    if e.kind == 'literal':
        return [e.parts]
    if e.kind == 'first':
        out = []
        for p in e.parts:
            out = out + leading_literals(p)
        return out
    if e.kind == 'and':
        for p in e.parts:
            if p.kind == 'not':
                continue
            return leading_literals(p)
        return []
    if e.kind == 'many':
        return leading_literals(e.parts[0])
    return []          # regex atom / negative lookahead


@proof('C18', targets=[(SM, 'make_grammar')], native=False,
       assumes=['A-PYPARSING: MatchFirst tries its alternatives in order and '
                'takes the first that matches'])
def grammar_tries_longer_operators_first():
    M = load(SM)
    pp = _NS()
    pp.Literal = lambda s: Rec('literal', s)
    pp.Regex = lambda s: Rec('regex', s)
    pp.OneOrMore = lambda e: Rec('many', [e])
    model(M, 'pyparsing', pp)
    expr = M.make_grammar()
    check('grammar/top-level-is-a-choice-of-five', expr.kind == 'first'
          and len(expr.parts) == 5)
    seen = []
    shadowed = []
    for alt in expr.parts:
        lits = leading_literals(alt)
        # within one MatchFirst chain the literals are tried in list order
        for i, later in enumerate(lits):
            for earlier in seen + lits[:i]:
                if later != earlier and later.startswith(earlier):
                    shadowed.append((earlier, later))
        seen = seen + lits
    check('grammar/no-operator-shadowed-by-an-earlier-prefix',
          shadowed == [])
    all_lits = []
    for alt in expr.parts:
        all_lits = all_lits + leading_literals(alt)
    check('grammar/every-documented-operator-is-a-literal',
          sorted(all_lits) == sorted(NUMERIC + STRING + OTHER))
    atom = expr.parts[4]
    check('grammar/atom-is-non-space-run-not-starting-with-an-operator',
          atom.kind == 'and' and atom.parts[0].kind == 'not'
          and atom.parts[1].kind == 'regex' and atom.parts[1].parts == r'\S+')
    dis = expr.parts[0]
    check('grammar/disjunction-drops-the-or-tokens',
          dis.action is not None
          and dis.action(None, None, ['<or>', 'a', '<or>', 'b'])
          == ['<or>', 'a', 'b'])


@bounded('C18', targets=[(SM, 'match'), (SM, 'make_grammar')],
         bound='all 17 operators x operand pairs (ints, decimals, negatives, '
               'equal/adjacent, different spellings of equal numbers; strings '
               'over letters/digits/punctuation) x 1..5 alternatives/items '
               '(with duplicates) x 4 bracket pairs x on/inside/outside both '
               'ends x 4 whitespace variants')
def real_parser_family():
    import itertools
    M = load(SM)
    nums = ['0', '1', '2', '10', '9', '-1', '-0.5', '-.5', '0.5', '3', '3.0',
            '2.99', '3.01', '1e2', '100', '20', '19.999', '20.001',
            '4294967296', '4294967295', '9007199254740992',
            '9007199254740991', '1e-9', '0.000000001001']
    ws = [(' ', ''), ('  ', ''), (' ', ' '), ('\t', '  ')]

    def spec_text(tokens, w):
        return w[1] + w[0].join(tokens) + w[1]
    table = {'=': lambda a, b: a >= b, '!=': lambda a, b: a != b,
             '<=': lambda a, b: a <= b, '<': lambda a, b: a < b,
             '==': lambda a, b: a == b, '>=': lambda a, b: a >= b,
             '>': lambda a, b: a > b}
    for op, fn in table.items():
        for a, b in itertools.product(nums, nums):
            for w in ws[:2]:
                got = M.match(a, spec_text([op, b], w))
                check('family/numeric', got == fn(float(a), float(b)),
                      detail=(a, op, b, got))
    strs = ['a', 'b', 'ab', 'abc', 'A', '2.1.0', '10', '9', 'x-y', 'x_y',
            'a.b', 'zz', '']
    stable = {'s!=': lambda a, b: a != b, 's<': lambda a, b: a < b,
              's<=': lambda a, b: a <= b, 's==': lambda a, b: a == b,
              's>': lambda a, b: a > b, 's>=': lambda a, b: a >= b}
    for op, fn in stable.items():
        for a, b in itertools.product(strs, strs[:-1]):
            for w in ws:
                got = M.match(a, spec_text([op, b], w))
                check('family/string', got == fn(a, b),
                      detail=(a, op, b, got))
    # operands that merely LOOK like the beginning of an operator: only the
    # documented operator literals are operators
    odd = ['s=1', 's=fast', 's=x<y', '!foo', '!', 's', 'sx', 'in>', 'or',
           'all-in']
    for a, b in itertools.product(odd, odd):
        for op, fn in stable.items():
            got = M.match(a, op + ' ' + b)
            check('family/string-operand-that-looks-like-an-operator',
                  got == fn(a, b), detail=(a, op, b, got))
        check('family/in-operand-that-looks-like-an-operator',
              M.match(a, '<in> ' + b) == (b in a), detail=(a, b))
        check('family/or-operand-that-looks-like-an-operator',
              M.match(a, '<or> zzz <or> ' + b) == (a == b), detail=(a, b))
        check('family/all-in-operand-that-looks-like-an-operator',
              M.match(str([a]), '<all-in> ' + b) == (a == b), detail=(a, b))
    for a, b in itertools.product(['gcc', 'gcc-4.8', 'clang', '', 'cc'],
                                  ['gcc', 'cc', 'g', '4.8', 'x']):
        check('family/in', M.match(a, '<in> ' + b) == (b in a),
              detail=(a, b))
    for n in (1, 2, 3, 5):
        for alts in itertools.islice(itertools.product(strs[:6], repeat=n),
                                     200):
            for v in strs[:7]:
                spec = ' '.join('<or> ' + x for x in alts)
                check('family/or', M.match(v, spec) == (v in alts),
                      detail=(v, spec))
    for n in (1, 2, 3, 5):
        for items in itertools.islice(itertools.product(
                ['aes', 'mmx', 'sse', 'avx'], repeat=n), 150):
            for have in (['aes', 'mmx'], ['aes'], [], ['aes', 'mmx', 'sse',
                                                        'avx']):
                spec = '<all-in> ' + ' '.join(items)
                check('family/all-in', M.match(str(have), spec)
                      == all(i in have for i in items),
                      detail=(have, spec))
    for ob, cb in itertools.product('[(', '])'):
        for lo, hi in [('10', '20'), ('-1', '1'), ('2.5', '2.5'),
                       ('0', '100')]:
            for v in [lo, hi, str(float(lo) - 0.001), str(float(hi) + 0.001),
                      str((float(lo) + float(hi)) / 2)]:
                x = float(v)
                want = ((x >= float(lo)) if ob == '[' else (x > float(lo))) \
                    and ((x <= float(hi)) if cb == ']' else (x < float(hi)))
                for w in ws[:2]:
                    got = M.match(v, spec_text(['<range-in>', ob, lo, hi, cb],
                                               w))
                    check('family/range-in', got == want,
                          detail=(v, ob, lo, hi, cb, got))
    for bad in ['<range-in> [ 20 10 ]', '<range-in> { 1 2 ]',
                '<range-in> [ 1 2 }', '<all-in> aes']:
        try:
            M.match('5' if 'range' in bad else 'not a list', bad)
            exc = None
        except TypeError:
            exc = 'TypeError'
        except Exception as e:
            exc = type(e).__name__
        check('family/malformed-typeerror', exc in ('TypeError',
                                                    'ValueError',
                                                    'SyntaxError'),
              detail=(bad, exc))
    for v, spec in [('abc', 'abc'), ('abc', 'abd'), ('1', ' 1'), ('1', '1 '),
                    ('', ''), ('x', '\tx'), ('a.b-c', 'a.b-c')]:
        want = spec.strip() == v
        check('family/no-operator-is-equality', M.match(v, spec) == want,
              detail=(v, spec))


CANARIES = [
    dict(name='lt-becomes-le', file=SM,
         proofs=['operator_table_numeric_and_string'],
         old="    '<': lambda x, y: float(x) < float(y),",
         new="    '<': lambda x, y: float(x) <= float(y),",
         expect='numeric/'),
    dict(name='or-becomes-all', file=SM,
         proofs=['operator_or_is_equality_with_any_alternative'],
         old="    '<or>': lambda x, *y: any(x == a for a in y),",
         new="    '<or>': lambda x, *y: all(x == a for a in y),",
         expect='or/'),
    dict(name='range-open-lower-made-closed', file=SM,
         proofs=['range_in_contract'],
         old="    elif y[0] == '(':\n        lower = num_x > num_y",
         new="    elif y[0] == '(':\n        lower = num_x >= num_y",
         expect='range/membership'),
    dict(name='eq-literal-before-eqeq', file=SM,
         proofs=['grammar_tries_longer_operators_first'],
         old='pyparsing.Literal("==") | pyparsing.Literal("=") |',
         new='pyparsing.Literal("=") | pyparsing.Literal("==") |',
         expect='grammar/no-operator-shadowed'),
    dict(name='single-token-fallback-removed', file=SM,
         proofs=['match_dispatch'],
         old='    if len(tree) == 1:\n        return tree[0] == cmp_value\n',
         new='', expect=''),
]

"""C19 - split_path / split_by_commas honour their contracts.

split_path is proved on the real body with the path given as its list of
'/'-separated segments (symbolic strings): str.split('/', k) is replaced by
its contract on that representation - the first k segments, then the
remainder re-joined with '/' (A-STDLIB-SPLIT) -, for every number of
segments 1..7, minsegs 1..4, maxsegs in {None, 0, min-1..min+2},
rest_with_last, and ARBITRARY segment contents (emptiness is what matters and
is symbolic).  The oracle is the property statement.
split_by_commas is a six-line wrapper around a pyparsing grammar: bounded
family only.
"""
from pyvc.api import (proof, bounded, load, model, tier, fresh_str, fresh_int,
                      pick,
                      assume, check, implies, conj, disj, neg, rng)

SU = 'oslo_utils/strutils.py'


class _NS:
    pass


class PathStr:
    """A path as its segment list, with str.split's contract."""

    def __init__(self, segs):
        self.segs = segs

    def split(self, sep, maxsplit=-1):
        segs = self.segs
        if maxsplit < 0 or maxsplit >= len(segs) - 1:
            return list(segs)
        head = list(segs[:maxsplit])
        rest = segs[maxsplit:]
        joined = rest[0]
        for s in rest[1:]:
            joined = joined + '/' + s
        return head + [joined]


def oracle(segs, minsegs, maxsegs, rest_with_last):
    """The property: ('ok', entries) or ('error',)."""
    M = maxsegs if maxsegs else minsegs
    if minsegs > M:
        return ('error',)
    if segs[0] != '':
        return ('error',)              # must start with '/'
    body = segs[1:]
    n = len(body)
    if n < minsegs:
        return ('error',)
    if rest_with_last:
        entries = list(body[:M - 1])
        if n >= M:
            last = body[M - 1]
            for s in body[M:]:
                last = last + '/' + s
            entries.append(last)
    else:
        if n > M + 1:
            return ('error',)
        if n == M + 1 and body[M] != '':
            return ('error',)          # only a single trailing slash
        entries = list(body[:M])
    # the first minsegs entries must be non-empty.  (With rest_with_last the
    # M-th entry is the re-joined remainder; "segment" is read as "returned
    # entry" there, which is what the examples in the docstring show.)
    for i in range(minsegs):
        if entries[i] == '':
            return ('error',)
    entries = entries + [None] * (M - len(entries))
    return ('ok', entries)


@proof('C19', targets=[(SU, 'split_path')], native=False,
       assumes=['A-STDLIB-SPLIT: str.split(sep, k) = first k segments + the '
                're-joined remainder'])
def split_path_contract():
    S = load(SU)
    ul = _NS()
    ul.parse = _NS()
    ul.parse.quote = lambda p: 'quoted'
    model(S, 'urllib', ul)
    nsegs = pick('segments_including_leading',
                 [1, 2, 3, 4, 5, 6, 7] if tier() == 'quick'
                 else [1, 2, 3, 4, 5, 6, 7, 8, 9])
    segs = [fresh_str('seg%d' % i) for i in range(nsegs)]
    minsegs = pick('minsegs', [1, 2, 3, 4] if tier() == 'quick'
                   else [1, 2, 3, 4, 5, 6])
    maxsegs = pick('maxsegs', [None, 0, minsegs - 1, minsegs, minsegs + 1,
                               minsegs + 2])
    rwl = pick('rest_with_last', [False, True])
    raised = None
    r = None
    try:
        r = S.split_path(PathStr(segs), minsegs, maxsegs, rwl)
    except Exception as e:
        raised = e
    want = oracle(segs, minsegs, maxsegs, rwl)
    if want[0] == 'error':
        check('split_path/invalid-raises-valueerror',
              isinstance(raised, ValueError))
    else:
        check('split_path/valid-does-not-raise', raised is None)
        if raised is None:
            M = maxsegs if maxsegs else minsegs
            check('split_path/exactly-maxsegs-entries', len(r) == M)
            check('split_path/entries-are-the-leading-segments-padded',
                  len(r) == len(want[1]) and all(
                      [(a is None and b is None) or (a is not None
                                                     and b is not None
                                                     and a == b)
                       for a, b in zip(r, want[1])]))


@bounded('C19', targets=[(SU, 'split_path'), (SU, 'split_by_commas')],
         bound='paths of 0..7 segments over {plain, empty, dotted, spaced} '
               'with/without leading and trailing slash x minsegs 1..4 x '
               'maxsegs {None,0,min-1..min+2} x rest_with_last (exhaustive); '
               'item lists of length 1..4 over 14 items incl. quoting '
               'characters (sampled), 40 malformed quoting patterns')
def real_split_family():
    import itertools
    S = load(SU)
    r = rng()
    seg_kinds = ['a', '', 'x.y', 'a b', 'o']
    for n in range(0, 8):
        combos = list(itertools.product(seg_kinds, repeat=n))
        if len(combos) > 400:
            combos = r.sample(combos, 400)
        for body in combos:
            for lead in ('/', ''):
                path = lead + '/'.join(body)
                segs = path.split('/')
                for minsegs in (1, 2, 3, 4):
                    for maxsegs in (None, 0, minsegs - 1, minsegs,
                                    minsegs + 1, minsegs + 2):
                        for rwl in (False, True):
                            try:
                                got = S.split_path(path, minsegs, maxsegs,
                                                   rwl)
                                exc = None
                            except ValueError:
                                got, exc = None, 'ValueError'
                            except Exception as e:
                                got, exc = None, type(e).__name__
                            want = oracle(segs, minsegs, maxsegs, rwl)
                            if want[0] == 'error':
                                check('family/split_path-invalid',
                                      exc == 'ValueError',
                                      detail=(path, minsegs, maxsegs, rwl,
                                              got, exc))
                            else:
                                check('family/split_path-valid',
                                      exc is None and got == want[1],
                                      detail=(path, minsegs, maxsegs, rwl,
                                              got, want[1]))

    def quote(item):
        if item == '' or any(c in item for c in ',"\\ '):
            return '"' + item.replace('\\', '\\\\').replace('"', '\\"') + '"'
        return item
    items = ['a', 'b1', 'x,y', 'sp ace', ' lead', 'trail ', 'q"uote',
             'back\\slash', ',', '"', '\\', 'a,b"c\\d e', '!#$%&', '{}[]']
    for n in (1, 2, 3, 4):
        combos = list(itertools.product(items, repeat=n))
        if len(combos) > 600:
            combos = r.sample(combos, 600)
        for lst in combos:
            text = ','.join(quote(i) for i in lst)
            try:
                got = S.split_by_commas(text)
                exc = None
            except Exception as e:
                got, exc = None, type(e).__name__
            check('family/split_by_commas-inverts-join',
                  exc is None and got == list(lst), detail=(text, got, exc))
    # unbalanced / misplaced quoting and empty unquoted items (whitespace
    # around items is skipped by the grammar and is not part of the property)
    for bad in ['a,', ',a', 'a,,b', '', ',', '"a', 'a"', '"a"b', 'a"b"',
                '"a" "b"', 'a b', '"a",', 'a,"b', '"a\\"', '"a"x,b',
                'x"a",b', '""a', 'a\\,b"', '"', '""""', 'a,"', 'a,b,',
                ',,', '"a","b', 'a"b', 'ab"', '"ab', 'a,"b"c', '"\\']:
        try:
            got = S.split_by_commas(bad)
            exc = None
        except ValueError:
            got, exc = None, 'ValueError'
        except Exception as e:
            got, exc = None, type(e).__name__
        check('family/split_by_commas-malformed-valueerror',
              exc == 'ValueError', detail=(bad, got, exc))
    for good, want in [('a', ['a']), ('a,b', ['a', 'b']), ('""', ['']),
                       ('"a,b",c', ['a,b', 'c']), ('"a b"', ['a b']),
                       ('"a\\"b"', ['a"b'])]:
        check('family/split_by_commas-examples',
              S.split_by_commas(good) == want, detail=good)


CANARIES = [
    dict(name='nonempty-check-covers-all-returned-segments', file=SU,
         proofs=['split_path_contract'],
         old="        if (segs[0] or count < minsegs or count > maxsegs or\n                '' in segs[1:minsegs]):",
         new="        if (segs[0] or count < minsegs or count > maxsegs or\n                '' in segs[1:maxsegs]):",
         expect='split_path/'),
    dict(name='trailing-data-tolerated', file=SU,
         proofs=['split_path_contract'],
         old="                (count == maxsegs + 1 and segs[maxsegs])):",
         new="                (count == maxsegs + 2 and segs[maxsegs])):",
         expect='split_path/'),
    dict(name='padding-off-by-one', file=SU, proofs=['split_path_contract'],
         old='    segs.extend([None] * (maxsegs - 1 - len(segs)))',
         new='    segs.extend([None] * (maxsegs - len(segs)))',
         expect='split_path/'),
]

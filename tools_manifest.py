#!/usr/bin/env python3
"""Regenerates MANIFEST.json from the table below (single source of truth)."""
import json
import os

HERE = os.path.dirname(os.path.abspath(__file__))

TECH = ('contract-based deductive verification: VCs generated from the AST of '
        'the real functions by pyvc (path-splitting symbolic execution, loop '
        'invariants, sidecar contracts), discharged by z3 (cvc5 for unknowns)')

CHECKS = {
    'C13': dict(
        text='Every StopWatch method (start, stop, resume, restart, split, '
             'elapsed, leftover, expired, has_started, has_stopped, splits, '
             '__enter__, __exit__, __init__) carries a contract taken from the '
             'property (raises-iff-illegal-state with unchanged state, exact '
             'value formulas, frames) and is proved from an arbitrary watch '
             'satisfying the class invariant with an arbitrary real-valued '
             'clock; the invariant is preserved by every method, so the '
             'contracts hold after call sequences of any length. Bounded '
             'tier: the same contracts executed natively on sampled states.',
        note='Floats are reals (A-FLOAT); A-STATIC; the unverified pyvc VC '
             'generator and z3 are trusted (guarded by refuted canaries and a '
             'native cross-check on every run).',
        ref='DESIGN.md section 4 C13'),
}

CHECKS.update({
    'C01': dict(
        text='Capture engine: CaptureRegion/EndCaptureRegion.capture, '
             'FileInspector.eat_chunk/_capture/finish are proved to keep every '
             'region in sync with a symbolic ghost stream (data == '
             'S[offset:min(p, offset+length)], tail window for end regions) '
             'for a symbolic chunk at a symbolic position - all chunkings, '
             'empty chunks, any stream length; regions added by post_process '
             'are fed the current chunk exactly once. Per inspector class '
             '(raw, qcow2, qed, vhd, vdi, iso, gpt, luks): init/step/verdict '
             'obligations show the abstraction relation R_F(S,p) is '
             'inductive over chunks and that format_match, complete, '
             'virtual_size and the safety_check outcome are the spec '
             'functions of the stream prefix, with pure observers. VHDX: the '
             'two table walks (loop invariants, bounded quantifiers over '
             'every table size, exact outcome functions), post_process, and '
             'the class-level induction R_VHDX init/step through the real '
             'eat_chunk fixpoint loop (finders enter through their proved '
             'contracts), uniqueness of the state in R_VHDX(S,q) (= chunk '
             'independence) and monotone rejection. VMDK, sparse class '
             '(stream shorter than 64 bytes, or an admissible sparse '
             'header): post_process, R_VMDK init/step in three phases, the '
             'provisional-descriptor lemma on the real _parse_descriptor, '
             'uniqueness of the verdict. Wrapper feeding (C06 contracts). '
             'BOUNDED, not proved: streams >= 64 bytes outside the VMDK '
             'sparse class, and the wrapper end-to-end - image families x '
             '~30 chunkings with oracles written from the layouts. Known '
             'findings F1 (text-descriptor mode), F3 (late footer window).',
        note='Trusted: pyvc VC generator, z3; A-STATIC; set iteration order '
             'of region sets taken as insertion order. The chunk-sequence '
             'induction (R-init, R-step => every chunking) is the standard '
             'loop rule, not mechanised per driver. VMDK _parse_descriptor '
             'enters the step proofs as a function of the descriptor bytes '
             '(reads/writes by inspection).',
        ref='DESIGN.md section 4 C01, section 3.1'),
    'C02': dict(
        text='Iff-contracts, written from the property text, for every '
             'safety check of the fixed-layout inspectors (qcow2 backing '
             'file / data file / unknown feature bits over all 64 bits and '
             'all versions, QED banned, LUKS version, MBR/GPT partition '
             'table rules, null checks) and for FileInspector.safety_check '
             '(refused iff incomplete or mismatching; SafetyCheckFailed keys '
             '= exactly the failing checks; ok iff none) proved for a '
             'symbolic stream; SafetyCheck.__call__ error-to-violation.',
        note='Trusted: pyvc, z3, A-STATIC, A-CODEC. Also under contract: VMDK '
             'post_process guards, check_footer (iff), check_descriptor (iff, '
             'descriptor lines as opaque predicate bundles), cli.main exit '
             'status (exit 0 iff image exists, detection returned an '
             'inspector and safety_check returned), wrapper decision table. '
             'VMDK whole-stream verdicts and the CLI on disk are bounded '
             'families. Known finding F1 (text-descriptor mode).',
        ref='DESIGN.md section 4 C02'),
    'C03': dict(
        text='Per-class signature soundness and totality: format_match and '
             'complete of the fixed-layout inspectors equal the spec '
             'signature predicate of the stream prefix in every reachable '
             'state (so they cannot raise), proved for a symbolic stream. '
             'InspectWrapper.formats/format: the full decision table over '
             'symbolic per-inspector complete/match booleans, finished flag, '
             'raw allowed or not and every set iteration order; '
             'InspectWrapper.__init__ honours allowed_formats whatever '
             'expected_format is; VMDK/VHDX format_match totality. '
             'No-revision: (a) with per-inspector stability as hypothesis, a '
             'decision or ambiguity error reported before EOF is the same '
             'after any further reads and after EOF (symbolic booleans); (b) '
             'stability itself - complete stays complete and format_match '
             'keeps its value - per fixed-layout class from the spec '
             'verdicts, for VHDX and the VMDK sparse class from their '
             'class relations R(S,q), R(S,q\'). detect_file_format / '
             'from_file are under contract (lazy generators). BOUNDED: the '
             'same clauses over real streams, files and read sizes.',
        note='Trusted: pyvc, z3, A-STATIC.',
        ref='DESIGN.md section 4 C03'),
    'C06': dict(
        text='InspectWrapper._process_chunk, read, __next__, _finish, close '
             'proved against HAVOC inspectors (eat_chunk may raise any '
             'Exception class or not; complete/format_match arbitrary '
             'booleans) in an arbitrary wrapper state (any already-errored '
             'subset, any expected_format, every iteration order of the '
             'inspector set): errored inspectors are never fed again, live '
             'ones get the identical chunk object exactly once, failures of '
             'non-expected formats never escape and are recorded, the '
             'expected format cuts the stream iff it fails (same exception '
             'object) or completes without matching (ImageFormatError), and '
             'read/__next__ return the very object the source returned after '
             'exactly one source call.',
        note='Trusted: pyvc, z3, A-STATIC. BaseExceptions that are not '
             'Exceptions are outside the property. Cross-call monotonicity of '
             'the errored set is the per-call obligation errored-set-only-'
             'grows plus induction over calls.',
        ref='DESIGN.md section 4 C06'),
    'C08': dict(
        text='mask_dict_password: mask_password (C04) is replaced by an '
             'opaque contract that records its arguments, nested mappings '
             'go through the real code however it recurses; the real body '
             'is proved for a one-item mapping with an ARBITRARY key (symbolic str with '
             'the 35-key scan, int, tuple, bytes) and every value kind, for a '
             'multi-item mapping (one output entry per input entry, order, '
             '`continue`), for non-dict Mapping types, empty mappings and '
             'non-mappings (TypeError); fresh output dict, argument and '
             'reachable values unmodified (identity + content), nested '
             'results as the property prescribes with the same secret '
             '(depth 2 in the proofs, deeper in the family). Key list '
             'compared with the '
             'documented one. Bounded stand-in: 400 seeded nested mappings '
             'against an oracle written from the property.',
        note='str.lower and substring tests on its result are uninterpreted '
             '(shared by code and contract); dict with a symbolic key held by '
             'identity; Mapping.items() purity for arbitrary Mapping types '
             '(A-STATIC); pyvc, z3.',
        ref='DESIGN.md section 4 C08'),
    'C17': dict(
        text='Radix-1000 packing proved on the real functions for tuples of '
             'length 1..6 with symbolic components (all values 0..999): '
             'convert_version_to_int is the Horner value, '
             'convert_version_to_str inverts it (its while loop is unrolled '
             'by the solver-decided exit test), integer order == tuple order '
             'for equal lengths 1..5, plus the LIA induction step and a '
             'Lean 4 lemma (lean/RadixOrder.lean, re-checked by the Lean '
             'kernel on every run) that the order of Horner values is the '
             'component order, and packing injective, for EVERY common '
             'length; the pre-release suffix substitution finds its marker '
             'only at the end of the text and the predicate clause pattern '
             'accepts exactly the documented form (regex-language lemmas on '
             'the real pattern strings); invalid versions raise '
             'ValueError; is_compatible and VersionPredicate.satisfied_by '
             'control flow against an abstract totally ordered Version '
             '(operands and operator per clause, conjunction, no early '
             'exit), _COMP_MAP checked entry by entry. Bounded stand-in: '
             'dotted strings, pre-release suffixes, 22x22 PEP 440 pairs, '
             'predicate conjunctions, malformed predicates against '
             'packaging itself.',
        note='A-PACKAGING (Version is PEP 440 total order with .major), '
             'A-STDLIB-INT (str(n) injective); str/regex parsing of dotted '
             'strings and predicates is covered by the bounded family only; '
             'pyvc, z3.',
        ref='DESIGN.md section 4 C17'),
    'C12': dict(
        text='normalize_time, utcnow, utcnow_ts, set/clear_time_override, '
             'advance_time_delta/seconds, is_older_than, is_newer_than, '
             'is_soon, parse_isotime (exception flow), marshall_now / '
             'unmarshall_time and TimeFixture proved on the real code against '
             'an integer-microsecond model of datetime/timedelta/tz offsets '
             '(symbolic instants, offsets -23:59:59..+23:59:59, real-valued '
             'seconds): each clause of the property is an arithmetic identity '
             'with the comparison operators as in the source (exact at the '
             'equality boundary). Bounded stand-in: the real functions with '
             'the real datetime/iso8601/zoneinfo over 400 seeded datetimes x '
             'zones (incl. DST folds) x boundary second counts, which also '
             'validates the model.',
        note='A-DATETIME (the microsecond model of the datetime module; '
             'timedelta(seconds=s) rounding to microseconds ignored), '
             'A-ISO8601, fixtures.Fixture.addCleanup; OverflowError at the '
             'ends of the datetime range is outside the model; pyvc, z3.',
        ref='DESIGN.md section 4 C12'),
    'C09': dict(
        text='save_and_reraise_exception proved for every handler body built '
             'from {no-op, raise-and-catch an inner exception, reraise '
             'off/on, nested context, raise new} two actions deep x initial '
             'flag x exception kinds (plain, mandatory constructor args, '
             'chained, BaseException): same object re-raised with its '
             'original traceback prefix, nothing raised when switched off, '
             'new exception propagates and the original is logged exactly '
             'when due; capture/force_reraise contracts (RuntimeError when '
             'nothing active/captured, captured object re-raised, state '
             'cleared); exception_filter as object / decorated function / '
             'bound method, as context manager and direct call with own / '
             'other / no active exception; remove_path_on_error (removal '
             'once, then the same object; removal failure propagates and the '
             'original is logged; BaseException passes); raise_with_cause. '
             'Bounded stand-in on the real interpreter: all bodies of length '
             '<= 3 incl. direct force_reraise, real tracebacks frame by '
             'frame, real file system.',
        note='A-RAISE (the interpreter semantics of raise / with / '
             'sys.exc_info / traceback growth are a model in pyvc), A-CTXLIB '
             '(contextlib.contextmanager protocol); pyvc, z3.',
        ref='DESIGN.md section 4 C09'),
    'C20': dict(
        text='compute_file_checksum: loop invariant "bytes hashed so far == '
             'content[:position]" over the real iter(lambda: f.read(n), b\'\') '
             'loop, for symbolic content and every chunk size n >= 1 '
             '(unbounded number of chunks, final short chunk included) => '
             'digest of the whole content; last_bytes == (content[max(0,len-'
             'n):], max(0,len-n)) incl. the EINVAL fallback and re-raise of '
             'other errors; ensure_tree / delete_if_exists for a SYMBOLIC '
             'errno (swallowed exactly for EEXIST-on-a-directory / ENOENT, '
             'otherwise the same exception object); write_to_tempfile call '
             'order, single write, close on every path. Bounded stand-in: '
             'the real file system in a temp dir (sizes around chunk '
             'multiples x chunk sizes x algorithms, every errno 1..133 '
             'injected).',
        note='A-OS (file / hashlib / mkstemp model in the contract script; '
             'loop heap effects declared via modifies+havoc and checked '
             'against the write log); loop termination not verified; pyvc, '
             'z3.',
        ref='DESIGN.md section 4 C20'),
    'C16': dict(
        text='safe_decode / safe_encode / to_utf8 proved with codecs as '
             'uninterpreted operators that may raise UnicodeError subclasses '
             'or LookupError: TypeError exactly for non-text; str returned '
             'as the same object by safe_decode; bytes decoded with the given '
             'encoding and errors policy, UTF-8 fallback with the same policy '
             'only on UnicodeDecodeError; safe_encode uses the lower-cased '
             'encoding and policy, returns bytes as the same object when '
             'empty or when incoming/encoding agree case-insensitively, '
             'otherwise transcodes; round trip from the law decode(encode(t, '
             'e), e) == t; to_utf8. Bounded stand-in (real codecs): 40 '
             'strings x 8 encodings x 3 cases x 3 policies, arbitrary byte '
             'blobs; to_slug alphabet / single hyphens / idempotence over '
             'all strings of length <= 2 (sampled 3) of a 26-symbol alphabet '
             '+ 400 longer ones.',
        note='A-CODEC (codec law + raise sets), str.lower uninterpreted; '
             'to_slug is bounded only (unicodedata + regex substitutions are '
             'outside the deductive reach); pyvc, z3.',
        ref='DESIGN.md section 4 C16'),
    'C18': dict(
        text='op_methods: key set == the 17 documented operators; every '
             'numeric / string / <in> / <or> entry proved to be the '
             'documented relation on symbolic operands; _all_in and _range_in '
             '(all four bracket combinations, strictness at each end, '
             'TypeError for wrong arity / bad brackets / inverted bounds); '
             'match(): single token -> equality, otherwise dispatch with the '
             'value first and the operand tokens in order, ParseException -> '
             'equality with the whole spec; make_grammar() executed against a '
             'recording stand-in for pyparsing and its structure checked: no '
             'operator literal is shadowed by an earlier proper prefix, the '
             'five alternatives, the atom rule, the <or> token dropping. '
             'Bounded stand-in: the real parser on all operators x operand '
             'families x whitespace.',
        note='A-FLOAT (float() uninterpreted real), A-LITERAL_EVAL, '
             'A-PYPARSING (MatchFirst order semantics; tokenisation itself is '
             'checked only by the bounded family); pyvc, z3.',
        ref='DESIGN.md section 4 C18'),
    'C19': dict(
        text='split_path proved on the real body with the path given as its '
             'list of symbolic segments (str.split replaced by its contract '
             'on that representation): for 1..7 segments x minsegs 1..4 x '
             'maxsegs {None,0,min-1..min+2} x rest_with_last and arbitrary '
             'segment contents, the result equals the oracle written from '
             'the property (ValueError otherwise, exactly maxsegs entries, '
             'leading segments, None padding, remainder in the last entry, '
             'single trailing slash tolerated). split_by_commas is a wrapper '
             'around a pyparsing grammar: bounded stand-in only (inverse of '
             'joining quoted items; 40 malformed patterns -> ValueError).',
        note='A-STDLIB-SPLIT; segment count bounded by 7 in the proof (the '
             'code inspects at most maxsegs+2 <= 8 split entries); '
             'split_by_commas is NOT proved, only bounded; pyvc, z3.',
        ref='DESIGN.md section 4 C19'),
    'C10': dict(
        text='(1) Regular-language lemmas (z3 RegLan, translated on every run '
             'from the real pattern strings in UNIT_SYSTEM_INFO via CPython\'s '
             'own regex parser): what each unit system accepts under re.match '
             'equals the documented grammar [sign]number[prefix]unit with '
             'exactly that system\'s prefixes; exponent table and units '
             'constants checked entry by entry. (2) The body of '
             'string_to_bytes proved for every (system, prefix, unit, '
             'return_int) combination - a finite exhaustive split - with the '
             'number an arbitrary string of the number grammar: result == '
             'NUM*base^exp (/8 for bits), ceiling for return_int; rejected '
             'text / unknown system raise ValueError and nothing else. (3) '
             'QemuImgInfo._extract_bytes control flow ((N bytes) precedence, '
             'unit completion, delegation with return_int). Bounded '
             'stand-in: the real functions on an enumerated family with an '
             'exact rational oracle (float rounding is outside the proof).',
        note='A-FLOAT (floats as reals; float() total on the number grammar); '
             'A-RE (regex match returns the groups of the accepted text; only '
             'the accepted LANGUAGE is proved); strings over code points <= '
             '0x2FFFF; pyvc, z3.',
        ref='DESIGN.md section 4 C10'),
    'C14': dict(
        text='bool_from_string, int_from_bool_as_string, is_valid_boolstr, '
             'is_int_like, validate_integer, check_string_length and the '
             'exception flow of is_uuid_like proved for symbolic str / int / '
             'other arguments with str.strip, str.lower, str(), int() as '
             'uninterpreted operators shared by code and contract (so the '
             'classification holds for every interpretation of them), word '
             'tables compared with the documented lists, numeric bounds '
             'symbolic. Bounded stand-in for the clauses that depend on the '
             'meaning of those operators and of uuid.UUID: documented words x '
             'case x padding, integer literals around bounds, hex strings of '
             'length 30..34 in 7 decorations, generate_uuid draws.',
        note='A-STDLIB-INT (int(str(n)) == n, str(n) canonical), A-UUID '
             '(uuid.UUID raises only TypeError/ValueError/AttributeError); '
             'pyvc, z3.',
        ref='DESIGN.md section 4 C14'),
    'C11': dict(
        text='Exception flow of every address validator proved with netaddr '
             'replaced by its assumed contract (each call may return anything '
             'or raise AddrFormatError/ValueError[/TypeError]): for every str '
             'argument no exception escapes; IPv6 scope-id rule (1..15 '
             'characters) and the CIDR prefix-presence rule; is_valid_port / '
             'icmp_type / icmp_code exactly (int, str via int(), None, other '
             'types); MAC pattern language == six colon-separated hex pairs '
             '(z3 regular-language lemma on the real pattern literal). '
             'Bounded stand-in (real netaddr): agreement with the ipaddress '
             'module and never-raises over the address grammar family.',
        note='A-NETADDR (raise sets and judgement of netaddr - checked only '
             'by the bounded family), A-STDLIB-INT, A-LOWER (validated over '
             'all code points each run), A-SPLIT; pyvc, z3.',
        ref='DESIGN.md section 4 C11'),
    'C15': dict(
        text='EUI-64: with netaddr given by its contract, '
             'get_ipv6_addr_by_EUI64 = network address | modified EUI-64 '
             '(ff:fe inserted, bit 57 inverted) and get_mac_addr_by_ipv6 '
             'recovers the MAC, for all 2^48 MACs and all 2^64 network '
             'prefixes in one bit-vector query each (operator precedence of '
             '+ and ^ read from the AST); error paths raise only ValueError / '
             'TypeError. urlsplit: for every (url, scheme, allow_fragments) '
             'the arguments reach urllib.parse.urlsplit unchanged and every '
             'component of the result equals the standard library one, under '
             'the assumed contract of the dependency; params(): for 0..3 '
             '(name, value) pairs with every coincidence of names, an empty '
             'query gives {}, collapse keeps the last value per name, '
             'collapse=False keeps a bare single value or all values in '
             'order. parse_host_port/escape_ipv6 are covered by the bounded '
             'stand-in only (real urllib/netaddr): round trips over 3 host '
             'families x ports x defaults; the URL family against the real '
             'urllib.parse stays as the cross-check of the assumed contract.',
        note='A-NETADDR for EUI/IPNetwork/IPAddress; prefix length <= 64 '
             '(low 64 bits of the network address zero); A-URLLIB (urlsplit '
             'returns five strings, path without "?" and, with '
             'allow_fragments, without "#"; parse_qsl returns pairs; '
             'SplitResult modelled as a five-field record under the real '
             'subclass body); the host:port clause is bounded, not proved; '
             'pyvc, z3.',
        ref='DESIGN.md section 4 C15'),
    'C04': dict(
        category='proof',
        text='Proved: (1) the 35 documented keys, every format pattern '
             'compiled for every key with DOTALL|IGNORECASE (the compilation '
             'loop of the real module is executed by the engine); (2) the '
             'body of mask_password with re.sub abstract and at most one '
             'chosen key present (each of the 35): key-free message returned '
             'unchanged with no substitution; otherwise all _2, then _1, then '
             'wildcard patterns of that key only, chained, with the right '
             'templates; (3) regular-language lemmas on the real pattern '
             'strings: each of the 10 renderings of the property over its '
             'value alphabet is matched in full by the responsible pattern, '
             'and no pattern can match text that lacks its key. BOUNDED, not '
             'proved: the end-to-end clause (exactly the value replaced, '
             'secret absent, idempotence, several secrets) - leftmost-greedy '
             'interaction of 35 x 12 sequential substitutions is outside the '
             'regular-language lemmas; real function on 35 keys x 4 spellings '
             'x 12 renderings x 16+3 secrets x contexts x masks.',
        note='A-RE (re.sub semantics; only LANGUAGES are proved), '
             'A-RE-UNIVERSE (code points <= 0x2FFFF), str.lower / substring '
             'tests on it uninterpreted; pyvc, z3.',
        ref='DESIGN.md section 4 C04'),
    'C05': dict(
        text='len(region.data) <= region.length is preserved by both capture '
             'methods for any chunk; every fixed-layout inspector has the '
             'specified region table whose lengths sum to <= 512 KiB, and '
             'context_info reports exactly the retained lengths; proved '
             'after __init__ and after an arbitrary eat_chunk. VHDX and VMDK: '
             'every dynamic region construction site is proved to clamp its '
             'length (64 KiB table, item length <= 64 KiB, descriptor <= 1 '
             'MiB - 1, 1536-byte footer window). BOUNDED: memory after every '
             'chunk of hostile VHDX/VMDK streams.',
        note='Trusted: pyvc, z3, A-STATIC.',
        ref='DESIGN.md section 4 C05'),
    'C07': dict(
        text='virtual_size of raw, qcow2, vhd, vdi, iso, gpt, luks equals '
             'the spec decoder of the ghost stream (big/little-endian field '
             'at the documented offset, ISO blocks x block size, LUKS length '
             '- 512*payload offset) over the full field range, and 0 while '
             'the carrying region is incomplete or the signature is absent. '
             'VHDX: first-matching-entry semantics of both table walks for '
             'every table size 0..2047 (loop invariants + quantified '
             'postconditions), size = LE u64 of the item; VMDK: capacity '
             'sectors x 512 when the descriptor declares a supported type. '
             'BOUNDED: whole-stream VHDX/VMDK sizes over image families.',
        note='Trusted: pyvc, z3, A-STATIC; struct.unpack model (cross-checked '
             'against CPython by the native tier).',
        ref='DESIGN.md section 4 C07'),
})

NOT_YET = {}

ALL = ['C%02d' % i for i in range(1, 21)]


def main():
    checks = []
    for pid in ALL:
        if pid not in CHECKS:
            continue
        c = CHECKS[pid]
        checks.append({
            'property_id': pid,
            'quick_cmd': './check %s --tier quick' % pid,
            'thorough_cmd': './check %s --tier thorough' % pid,
            'evidence_file': 'evidence/%s.json' % pid,
            'replay_cmd_template': './check --replay {path}',
            'engine': 'pyvc',
            'level_claimed': {'category': c.get('category', 'proof'),
                              'text': c['text'], 'design_ref': c['ref']},
            'level_note': c['note'],
            'technique': c.get('technique', TECH),
        })
    na = []
    for pid in ALL:
        if pid not in CHECKS:
            na.append({'property_id': pid, 'reason': NOT_YET.get(
                pid, 'contracts for this property are not built yet in this '
                     'round (planned: DESIGN.md section 4); not claimed')})
    m = {
        'version': 1,
        'setup_cmd': './setup.sh',
        'hooks': {
            'guard': 'OSLO_UTILS_VERIF',
            'enable': 'no hook is needed: contracts are sidecar files in '
                      '/verif/contracts, the engine reads /repo source, '
                      'replays import the unmodified modules',
            'baseline_off_cmd': 'cd /repo && /venv/bin/python -m pytest -q '
                                '-p no:cacheprovider --timeout=900 '
                                '--continue-on-collection-errors',
            'source_commits': SOURCE_COMMITS,
            'add_only': False,
        },
        'engines': [{
            'name': 'pyvc', 'path': 'pyvc/',
            'serves_properties': sorted(CHECKS),
            'kind_free_text': 'VC generator for a Python subset (AST '
            'interpreter over symbolic values, path exploration by '
            're-execution, loop invariants, contract stubs) + z3/cvc5; '
            'contract scripts in contracts/ run both symbolically (proof) '
            'and natively (replay, bounded tier)'}],
        'checks': checks,
        'not_applicable': na,
        'notes': 'Exit codes of ./check: 0 held, 1 violation (VIOLATION line '
                 '+ replay file), 2 undecided (solver unknown / code left the '
                 'supported subset), 3 checker error (incl. a canary that is '
                 'no longer refuted). Known findings: known_findings.json.',
    }
    with open(os.path.join(HERE, 'MANIFEST.json'), 'w') as f:
        json.dump(m, f, indent=1)
        f.write('\n')


SOURCE_COMMITS = [
    '40dbd74 fix: VMDKInspector.format_match raised AttributeError before a descriptor was parsed',
    '50b92d9 fix: VMDKInspector.virtual_size raised KeyError for text descriptors',
    "c0fae74 fix: string_to_bytes('1kib', 'mixed') raised KeyError",
    '010dee0 fix: address validators raised ValueError instead of returning False',
    '58b33d1 fix: is_valid_mac accepted a MAC address followed by a newline',
    'd22c554 fix: string_to_bytes accepted a trailing newline after the unit',
    '11960c9 fix: check_string_length ignored max_length=0',
    "db2dbfa fix: mask_password left the tail of unquoted secrets containing '^' unmasked",
    '7b4ba01 fix: regions located from data completed in the same chunk were not followed up',
    '699f41f fix: VHDX pointers behind the stream position made the verdict depend on chunking',
    '8c91506 fix: convert_version_to_int raised TypeError for an invalid tuple version',
    '3ae0bbb fix: VMDK virtual_size is 0 until the sparse header has been captured',
]

if __name__ == '__main__':
    main()

#!/usr/bin/env python3
"""Record the sha256 of every /repo file that canaries mutate (run on the
tree the canaries were validated on; rerun after a fix: commit)."""
import hashlib
import importlib
import json
import os
import sys

sys.path.insert(0, '/verif')
files = set()
for fn in sorted(os.listdir('/verif/contracts')):
    if fn.startswith('c') and fn.endswith('.py'):
        src = open('/verif/contracts/' + fn).read()
        if 'CANARIES' not in src:
            continue
        m = importlib.import_module('contracts.' + fn[:-3])
        for c in getattr(m, 'CANARIES', []):
            files.add(c['file'])
out = {}
for f in sorted(files):
    with open(os.path.join('/repo', f), 'rb') as fh:
        out[f] = hashlib.sha256(fh.read()).hexdigest()
json.dump({'repo_commit': os.popen('git -C /repo rev-parse --short HEAD').read().strip(),
           'files': out}, open('/verif/canary_pins.json', 'w'), indent=1)
print(json.dumps(out, indent=1))

#!/usr/bin/env python3
"""Run ./check <prop> against seeded mutants: each patch is applied in a
scratch worktree of /repo (never in /repo itself), the check is pointed at it
with PYVC_REPO, the result is recorded in seeded/<name>/meta.json.

usage: tools_seedrun.py [name ...]    (default: all under /verif/seeded)"""
import json
import os
import subprocess
import sys
from concurrent.futures import ThreadPoolExecutor


def sh(cmd, cwd=None, env=None, timeout=3600):
    return subprocess.run(cmd, shell=True, cwd=cwd, capture_output=True,
                          text=True, timeout=timeout, env=env)


def run(name):
    d = os.path.join('/verif/seeded', name)
    meta = json.load(open(os.path.join(d, 'meta.json')))
    prop = meta['property']
    wt = '/tmp/seedrun_%s' % name
    sh('git -C /repo worktree remove --force %s' % wt)
    r = sh('git -C /repo worktree add -q --detach %s HEAD' % wt)
    assert r.returncode == 0, r.stderr
    try:
        r = sh('git apply %s' % os.path.join(d, 'patch.diff'), cwd=wt)
        assert r.returncode == 0, r.stderr
        env = dict(os.environ, PYVC_REPO=wt,
                   PYVC_OUT='/tmp/seedrun_out_%s' % name)
        props = [prop] + meta.get('also_check', [])
        res = {}
        for p in props:
            r = sh('./check %s' % p, cwd='/verif', env=env)
            lines = [l for l in r.stdout.splitlines()
                     if l.startswith(('VIOLATION', 'UNDECIDED',
                                      'CHECKER-ERROR', '  obligation'))]
            res[p] = {'exit': r.returncode, 'lines': lines[:12]}
        meta['check_result'] = res
        meta['detected_by'] = [p for p, v in res.items() if v['exit'] == 1]
        json.dump(meta, open(os.path.join(d, 'meta.json'), 'w'), indent=1)
        return name, res
    finally:
        sh('git -C /repo worktree remove --force %s' % wt)
        sh('rm -rf /tmp/seedrun_out_%s' % name)


def main():
    names = sys.argv[1:] or sorted(os.listdir('/verif/seeded'))
    with ThreadPoolExecutor(max_workers=3) as ex:
        for name, res in ex.map(run, names):
            for p, v in res.items():
                print('%-10s %s exit=%d' % (name, p, v['exit']))
                for l in v['lines'][:6]:
                    print('      ', l[:200])


if __name__ == '__main__':
    main()

"""Native replay of one proof script on concrete inputs (subprocess entry)."""
import json
import sys


def main():
    if '--stdin' in sys.argv:
        req = json.load(sys.stdin)
    else:
        with open(sys.argv[1]) as f:
            req = json.load(f)
    from pyvc import api
    rng = None
    if req.get('seed') is not None:
        import random
        rng = random.Random(req['seed'])
    out = api.run_native(req['module'], req['proof'], inputs=req['inputs'],
                         rng=rng,
                         repo=req.get('repo', '/repo'),
                         sources=req.get('sources') or None)
    print(json.dumps({'failed': out['failed'],
                      'checks_evaluated': sum(out['counts'].values()),
                      'first_fail': out['first_fail'],
                      'infeasible': out['infeasible'],
                      'missing': out['missing'],
                      'exception': out['exception']}, default=str))


if __name__ == '__main__':
    main()

# Python-level models (interpreted by pyvc like any other source) of parts of
# contextlib; merged into the engine's `contextlib` module model.


class suppress:
    def __init__(self, *exceptions):
        self._exceptions = exceptions

    def __enter__(self):
        return None

    def __exit__(self, exctype, excinst, exctb):
        return exctype is not None and issubclass(exctype, self._exceptions)


class closing:
    def __init__(self, thing):
        self.thing = thing

    def __enter__(self):
        return self.thing

    def __exit__(self, *exc_info):
        self.thing.close()


class nullcontext:
    def __init__(self, enter_result=None):
        self.enter_result = enter_result

    def __enter__(self):
        return self.enter_result

    def __exit__(self, *excinfo):
        return None


class ExitStack:
    """callback()/enter_context()/push-free subset: exits run LIFO; an exit
    that returns true suppresses the pending exception for the outer ones."""

    def __init__(self):
        self._exits = []

    def __enter__(self):
        return self

    def callback(self, callback, *args, **kwds):
        def _exit(exc_type, exc, tb):
            callback(*args, **kwds)
            return False
        self._exits.append(_exit)
        return callback

    def enter_context(self, cm):
        result = cm.__enter__()
        self._exits.append(cm.__exit__)
        return result

    def close(self):
        self.__exit__(None, None, None)

    def __exit__(self, exc_type, exc, tb):
        pending = (exc_type, exc, tb)
        suppressed = False
        while self._exits:
            cb = self._exits.pop()
            try:
                if cb(*pending):
                    suppressed = True
                    pending = (None, None, None)
            except BaseException as new_exc:
                pending = (type(new_exc), new_exc, None)
                suppressed = False
                raised = new_exc
        if pending[1] is not None and pending[1] is not exc:
            raise pending[1]
        return suppressed and exc is not None

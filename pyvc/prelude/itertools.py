# Python-level models of parts of `itertools` (generator functions).


def chain(*iterables):
    for it in iterables:
        for x in it:
            yield x


def repeat(obj, times=None):
    if times is None:
        while True:
            yield obj
    else:
        for _ in range(times):
            yield obj


def filterfalse(predicate, iterable):
    for x in iterable:
        if predicate is None:
            if not x:
                yield x
        elif not predicate(x):
            yield x


def takewhile(predicate, iterable):
    for x in iterable:
        if predicate(x):
            yield x
        else:
            break


def dropwhile(predicate, iterable):
    dropping = True
    for x in iterable:
        if dropping and predicate(x):
            continue
        dropping = False
        yield x


def islice(iterable, *args):
    if len(args) == 1:
        start, stop, step = 0, args[0], 1
    elif len(args) == 2:
        start, stop, step = args[0] or 0, args[1], 1
    else:
        start, stop, step = args[0] or 0, args[1], args[2] or 1
    i = 0
    nxt = start
    for x in iterable:
        if stop is not None and i >= stop:
            break
        if i == nxt:
            yield x
            nxt += step
        i += 1


def count(start=0, step=1):
    n = start
    while True:
        yield n
        n += step


def starmap(function, iterable):
    for args in iterable:
        yield function(*args)


def accumulate(iterable, func=None):
    first = True
    total = None
    for x in iterable:
        if first:
            total = x
            first = False
        elif func is None:
            total = total + x
        else:
            total = func(total, x)
        yield total

# Python-level models of parts of `operator` (comparisons and `contains` are
# engine builtins).


def attrgetter(*names):
    def one(obj, name):
        for part in name.split('.'):
            obj = getattr(obj, part)
        return obj
    if len(names) == 1:
        name = names[0]

        def get1(obj):
            return one(obj, name)
        return get1

    def getn(obj):
        return tuple([one(obj, n) for n in names])
    return getn


def itemgetter(*items):
    if len(items) == 1:
        item = items[0]

        def get1(obj):
            return obj[item]
        return get1

    def getn(obj):
        return tuple([obj[i] for i in items])
    return getn


def methodcaller(name, *args, **kwargs):
    def call(obj):
        return getattr(obj, name)(*args, **kwargs)
    return call


def not_(a):
    return not a


def truth(a):
    return True if a else False


def is_(a, b):
    return a is b


def is_not(a, b):
    return a is not b


def add(a, b):
    return a + b


def sub(a, b):
    return a - b


def mul(a, b):
    return a * b


def floordiv(a, b):
    return a // b


def truediv(a, b):
    return a / b


def mod(a, b):
    return a % b


def neg(a):
    return -a


def and_(a, b):
    return a & b


def or_(a, b):
    return a | b


def xor(a, b):
    return a ^ b


def lshift(a, b):
    return a << b


def rshift(a, b):
    return a >> b


def getitem(a, b):
    return a[b]


def concat(a, b):
    return a + b

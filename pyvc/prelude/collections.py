# Python-level model of collections.namedtuple: a record class with the
# namedtuple interface (iteration, indexing, equality with tuples, _make,
# _replace, _asdict, _fields).  isinstance(x, tuple) is NOT modelled.


def namedtuple(typename, field_names, rename=False, defaults=None,
               module=None):
    if isinstance(field_names, str):
        field_names = field_names.replace(',', ' ').split()
    fields = tuple(field_names)
    ndefaults = tuple(defaults) if defaults is not None else ()

    class _NamedTuple:
        _fields = fields
        _field_defaults = dict(zip(fields[len(fields) - len(ndefaults):],
                                   ndefaults))

        def __init__(self, *args, **kwargs):
            if len(args) > len(fields):
                raise TypeError('%s() takes %d positional arguments but %d '
                                'were given' % (typename, len(fields),
                                                len(args)))
            vals = list(args)
            for f in fields[len(args):]:
                if f in kwargs:
                    vals.append(kwargs.pop(f))
                elif f in self._field_defaults:
                    vals.append(self._field_defaults[f])
                else:
                    raise TypeError("%s() missing required argument: '%s'"
                                    % (typename, f))
            if kwargs:
                raise TypeError('%s() got an unexpected keyword argument'
                                % typename)
            self._values = tuple(vals)
            for f, v in zip(fields, vals):
                setattr(self, f, v)

        @classmethod
        def _make(cls, iterable):
            return cls(*list(iterable))

        def _replace(self, **kwargs):
            vals = []
            for f, v in zip(fields, self._values):
                vals.append(kwargs.pop(f) if f in kwargs else v)
            if kwargs:
                raise ValueError('Got unexpected field names: %r'
                                 % list(kwargs))
            return type(self)(*vals)

        def _asdict(self):
            return dict(zip(fields, self._values))

        def __iter__(self):
            return iter(self._values)

        def __len__(self):
            return len(fields)

        def __getitem__(self, i):
            return self._values[i]

        def __eq__(self, other):
            if isinstance(other, tuple):
                return self._values == other
            if hasattr(other, '_values'):
                return self._values == other._values
            return False

        def __ne__(self, other):
            return not self.__eq__(other)

        def __hash__(self):
            return 0

    _NamedTuple.__name__ = typename
    return _NamedTuple

"""Further proof-script API (byte-order helpers, regions, ...)."""
import z3

from .core import (Unsupported, SInt, SBytes, mk_int, mk_bool, zint)
from . import ops


def install(it, ns, B):

    @B('be')
    def _be(it, a, kw):
        """big-endian unsigned integer of k bytes of b starting at off"""
        b, off, k = ops.as_sbytes(a[0]), a[1], a[2]
        terms = [b.at(zint(off) + i) * (1 << (8 * (k - 1 - i)))
                 for i in range(k)]
        return mk_int(z3.Sum(terms) if k > 1 else terms[0])

    @B('le')
    def _le(it, a, kw):
        b, off, k = ops.as_sbytes(a[0]), a[1], a[2]
        terms = [b.at(zint(off) + i) * (1 << (8 * i)) for i in range(k)]
        return mk_int(z3.Sum(terms) if k > 1 else terms[0])

    @B('byte_at')
    def _byte_at(it, a, kw):
        """b[i] without bounds check (for use under quantifiers)."""
        b = ops.as_sbytes(a[0])
        return mk_int(b.at(zint(a[1])))

"""pyvc - verification-condition generator for a subset of Python.
See /verif/DESIGN.md section 2."""

"""pyvc runner: load contract scripts, run every proof of a property over all
its paths (one worker process per proof), collect obligations."""
import glob
import json
import os
import sys
import time
import traceback
from concurrent.futures import ProcessPoolExecutor

from .core import Explorer, PathEnd, Unsupported, PyRaise, EngineError

VERIF = os.path.dirname(os.path.dirname(os.path.abspath(__file__)))
REPO = os.environ.get('PYVC_REPO', '/repo')


def contract_modules():
    out = []
    for f in sorted(glob.glob(os.path.join(VERIF, 'contracts', '*.py'))):
        b = os.path.basename(f)[:-3]
        if b.startswith('_'):
            continue
        out.append('contracts.' + b)
    return out


def props_of_module(modname):
    """Property ids a contract module serves: from its file name cNN_*.py
    plus an optional `# also: C05 C07` header line."""
    path = os.path.join(VERIF, modname.replace('.', '/') + '.py')
    base = os.path.basename(path)
    props = set()
    if base[0] == 'c' and base[1:3].isdigit():
        props.add('C' + base[1:3])
    with open(path) as f:
        for line in f:
            if line.startswith('# also:'):
                props.update(line.split(':', 1)[1].split())
            if line.startswith(('def ', '@', 'class ')):
                break
    return props


def new_interp(sources=None):
    from .interp import Interp
    it = Interp(REPO, VERIF)
    if sources:
        it.sources.update(sources)
    return it


def list_proofs(modname, sources=None, kind='proof'):
    it = new_interp(sources)
    it.import_module(modname)
    return [(p.prop, p.name) for p in it.proofs if p.kind == kind]


def run_proof(modname, proofname, opts=None, sources=None):
    """Run one proof in this process; returns a JSON-able result."""
    opts = opts or {}
    t0 = time.time()
    res = {'module': modname, 'proof': proofname, 'obligations': [],
           'errors': [], 'covered': [], 'paths': 0}
    try:
        it = new_interp(sources)
        m = it.import_module(modname)
        decl = [p for p in it.proofs if p.name == proofname]
        if not decl:
            res['errors'].append(('crash', 'no such proof', []))
            return res
        decl = decl[0]
        res['prop'] = decl.prop
        res['targets'] = [list(t) for t in decl.targets]
        res['assumes'] = list(decl.assumes)
        res['native'] = getattr(decl, 'native', True)
        ex = Explorer(branch_timeout_ms=opts.get('branch_timeout_ms', 5000),
                      query_timeout_ms=opts.get('query_timeout_ms', 10000),
                      max_paths=opts.get('max_paths', 60000),
                      cross_check=bool(opts.get('cross_check')))
        undo_base = snapshot_modules(it)

        def one(path):
            it.restore_modules()
            it.reset_path(path)
            it.ob_prefix = ''
            it.log_events = []
            it.stubs = {}
            it.invariants = {}
            it.clock_hook = None
            it.regex_hook = None
            it.probing = 0
            try:
                it.call(decl.fn, [], {})
            except PyRaise as e:
                # an exception escaped the contract script: the code raised
                # something its contract does not allow
                name = 'no-unexpected-exception'
                desc = describe_exc(it, e.exc)
                ob = ex.obligation(name)
                ob.queries += 1
                import z3
                path.solver.set('timeout', ex.query_timeout_ms)
                feas = path.solver.check()
                path.solver.set('timeout', ex.branch_timeout_ms)
                if feas == z3.sat:
                    mdl = path.solver.model()
                    ob.failed.append({
                        'inputs': path.model_inputs(mdl), 'decisions':
                        list(path.decisions[:path.pos]),
                        'exception': desc})
                elif feas != z3.unsat:
                    # the path may be infeasible: the solver could not tell.
                    # Undecided, never a violation.
                    ob.undecided.append(
                        'exception %s on a path whose feasibility the '
                        'solver could not decide (%s)' % (
                            desc.get('type'), path.solver.reason_unknown()))
                raise PathEnd()
        ex.run(one)
        ob = ex.obligation('no-unexpected-exception')
        if not ob.failed:
            # one query per completed path
            ob.queries = max(ob.queries, ex.stats.paths)
            ob.discharged = ob.queries
            ob.backends.add('path-enumeration')
        res['paths'] = ex.stats.paths
        res['cut_paths'] = ex.stats.cut_paths
        res['branch_queries'] = ex.stats.branch_queries
        res['solver_time_s'] = round(ex.stats.solver_time, 3)
        res['covered'] = sorted(ex.covered)
        res['cross_check'] = dict(ex.crossed)
        # vacuity guards: obligations only ever reached under an
        # unsatisfiable path condition, and cover points of this proof that
        # no feasible path reached
        res['vacuous'] = sorted(
            n for n, ob in ex.obligations.items()
            if n != 'no-unexpected-exception' and ob.queries
            and not ob.failed and n not in ex.reached)
        wanted = set()
        fnode = getattr(decl.fn, 'node', None)
        if fnode is not None:
            import ast as _ast
            for nd in _ast.walk(fnode):
                if isinstance(nd, _ast.Call) and isinstance(
                        nd.func, _ast.Name) and nd.func.id == 'cover' \
                        and nd.args and isinstance(nd.args[0], _ast.Constant):
                    wanted.add(nd.args[0].value)
        res['uncovered'] = sorted(wanted - set(ex.covered))
        res['errors'] = [list(e) for e in ex.errors]
        res['inlined'] = sorted('%s:%s' % k for k in it.inlined)
        res['stubbed'] = sorted('%s:%s' % k for k in it.called)
        res['trusted'] = sorted(it.trusted)
        for name, ob in ex.obligations.items():
            res['obligations'].append({
                'name': name, 'status': ob.status, 'queries': ob.queries,
                'discharged': ob.discharged,
                'failed': ob.failed[:3], 'n_failed': len(ob.failed),
                'undecided': ob.undecided[:3],
                'time_s': round(ob.time_s, 4),
                'backends': sorted(ob.backends)})
    except ProofTimeout:
        raise
    except Exception:
        res['errors'].append(['crash', traceback.format_exc(), []])
    res['wall_s'] = round(time.time() - t0, 3)
    return res


def describe_exc(it, exc):
    try:
        args = exc.attrs.get('args', ())
        s = []
        for a in args:
            s.append(a if isinstance(a, (str, int, float)) else repr(a))
        tb = exc.attrs.get('__traceback__') or ()
        return {'type': exc.cls.name, 'args': [str(x)[:200] for x in s],
                'raised_at': [list(x) for x in tb][:5]}
    except Exception:
        return {'type': getattr(exc.cls, 'name', '?')}


def snapshot_modules(it):
    """Module namespaces and function attributes that proof scripts may
    patch; restored before every path."""
    from .interp import FuncVal, ModuleVal, ClassVal
    snap = {}
    for name, m in it.modules.items():
        fattrs = {}
        for k, v in m.ns.items():
            if isinstance(v, FuncVal):
                fattrs[k] = dict(v.attrs)
            elif isinstance(v, ClassVal) and v.module is m:
                fattrs[k] = dict(v.ns)
        snap[name] = (dict(m.ns), fattrs)
    return snap


def restore_modules(it, snap):
    from .interp import FuncVal, ClassVal
    for name, (ns, fattrs) in snap.items():
        m = it.modules[name]
        m.ns.clear()
        m.ns.update(ns)
        for k, a in fattrs.items():
            v = m.ns.get(k)
            if isinstance(v, FuncVal):
                v.attrs.clear()
                v.attrs.update(a)
            elif isinstance(v, ClassVal):
                v.ns.clear()
                v.ns.update(a)


class ProofTimeout(Exception):
    pass


def _job(args):
    """One proof in a worker, under a wall-clock limit (a source change can
    make queries slow; that must end as UNDECIDED, not as a hang)."""
    import signal
    opts = args[2] or {}
    limit = int(opts.get('proof_wall_limit_s', 600))

    def on_alarm(signum, frame):
        raise ProofTimeout()
    old = signal.signal(signal.SIGALRM, on_alarm)
    signal.alarm(limit)
    try:
        return run_proof(*args)
    except ProofTimeout:
        return {'module': args[0], 'proof': args[1], 'obligations': [],
                'errors': [['timeout', 'proof exceeded %d s of wall time'
                            % limit, []]], 'covered': [], 'paths': 0,
                'targets': [], 'assumes': []}
    finally:
        signal.alarm(0)
        signal.signal(signal.SIGALRM, old)


def property_tasks(prop, opts=None, sources=None, only=None, kind='proof'):
    tasks = []
    for modname in contract_modules():
        if prop not in props_of_module(modname):
            continue
        for p, name in list_proofs(modname, sources, kind):
            ps = p if isinstance(p, (list, tuple)) else [p]
            if prop in ps and (only is None or name in only):
                tasks.append((modname, name, opts, sources))
    return tasks


def run_property(prop, opts=None, jobs=None, sources=None, only=None):
    """Run every proof that serves `prop`.  Returns list of results."""
    tasks = []
    for modname in contract_modules():
        if prop not in props_of_module(modname):
            continue
        for p, name in list_proofs(modname, sources):
            ps = p if isinstance(p, (list, tuple)) else [p]
            if prop in ps and (only is None or name in only):
                tasks.append((modname, name, opts, sources))
    if not tasks:
        return []
    jobs = jobs or min(16, len(tasks))
    if jobs == 1:
        return [_job(t) for t in tasks]
    with ProcessPoolExecutor(max_workers=jobs) as pool:
        return list(pool.map(_job, tasks))


def main(argv=None):
    import argparse
    ap = argparse.ArgumentParser()
    ap.add_argument('prop')
    ap.add_argument('--only', nargs='*')
    ap.add_argument('-j', type=int, default=None)
    ap.add_argument('-v', action='store_true')
    a = ap.parse_args(argv)
    rs = run_property(a.prop, jobs=a.j, only=a.only)
    bad = 0
    for r in rs:
        print('== %s.%s  paths=%s wall=%ss' % (r['module'], r['proof'],
                                                 r.get('paths'),
                                                 r.get('wall_s')))
        for e in r['errors']:
            print('   ERROR', e[0], e[1][:2000])
            bad += 1
        for ob in r['obligations']:
            if ob['status'] != 'discharged' or a.v:
                print('   %-12s %s (q=%d)' % (ob['status'], ob['name'],
                                             ob['queries']))
            if ob['status'] == 'refuted':
                print('        ', json.dumps(ob['failed'][0])[:600])
                bad += 1
            elif ob['status'] != 'discharged':
                bad += 1
    n = sum(len(r['obligations']) for r in rs)
    print('%d proofs, %d obligations, %d not discharged/errors'
          % (len(rs), n, bad))
    return 0 if not bad else 1


if __name__ == '__main__':
    sys.exit(main())

"""Per-property check driver: proof tier (all obligations of every contract
serving the property), canaries (in-memory mutants of the real source that the
engine must refute), bounded tier (the same contract scripts executed natively
on sampled inputs against the real imported code), known findings, replay
files, evidence.  Exit codes: 0 held / 1 violation / 2 undecided / 3 crash."""
import hashlib
import importlib
import json
import os
import random
import re
import subprocess
import sys
import time
from concurrent.futures import ProcessPoolExecutor

from . import run as R

VERIF = R.VERIF
REPO = R.REPO
# scratch runs (PYVC_REPO pointing at a mutated copy) must not overwrite the
# evidence/replays of the real tree
OUT = os.environ.get('PYVC_OUT') or (VERIF if REPO == '/repo' else
                                      '/tmp/pyvc-scratch-out')


def sanitize(s):
    return re.sub(r'[^A-Za-z0-9_.-]+', '_', s)[:150]


def load_known():
    p = os.path.join(VERIF, 'known_findings.json')
    if not os.path.exists(p):
        return {'findings': [], 'fixed': []}
    with open(p) as f:
        return json.load(f)


def native_contract_module(modname):
    if VERIF not in sys.path:
        sys.path.insert(0, VERIF)
    if REPO not in sys.path:
        sys.path.insert(0, REPO)
    return importlib.import_module(modname)


def native_run(modname, proofname, inputs, sources=None, timeout=600,
               seed=None):
    """Replay in a subprocess (isolation from patches and module state)."""
    req = {'module': modname, 'proof': proofname, 'inputs': inputs,
           'repo': REPO, 'sources': sources or {}, 'seed': seed}
    try:
        r = subprocess.run([sys.executable, '-m', 'pyvc.replay', '--stdin'],
                           input=json.dumps(req), capture_output=True,
                           text=True, timeout=timeout, cwd=VERIF)
    except subprocess.TimeoutExpired:
        return {'error': 'timeout'}
    try:
        return json.loads(r.stdout.strip().splitlines()[-1])
    except Exception:
        return {'error': 'replay crashed', 'stderr': r.stderr[-2000:],
                'stdout': r.stdout[-500:]}


def _sample_job(args):
    modname, proofname, seed, n, budget_s = args
    from . import api
    rng = random.Random(seed)
    t0 = time.time()
    evals = feasible = 0
    distinct = set()
    failures = {}
    exceptions = {}
    check_counts = {}
    for i in range(n):
        if time.time() - t0 > budget_s:
            break
        out = api.run_native(modname, proofname, rng=rng, repo=REPO)
        evals += 1
        if out['infeasible'] or out['missing']:
            continue
        feasible += 1
        key = hashlib.sha1(json.dumps(out['drawn'], sort_keys=True,
                                      default=str).encode()).hexdigest()
        distinct.add(key)
        for nm, k in out['counts'].items():
            check_counts[nm] = check_counts.get(nm, 0) + k
        for nm in out['failed']:
            failures.setdefault(nm, out['drawn'])
        if out['exception'] is not None:
            exceptions.setdefault(out['exception']['type'],
                                  (out['drawn'], out['exception']))
    return {'module': modname, 'proof': proofname, 'evaluations': evals,
            'feasible': feasible, 'distinct': len(distinct),
            'failures': failures,
            'exceptions': {k: {'inputs': v[0], 'exception': v[1]}
                           for k, v in exceptions.items()},
            'checks_evaluated': check_counts,
            'wall_s': round(time.time() - t0, 2)}


def _bounded_job(args):
    modname, proofname, seed, tier = args
    os.environ['VERIF_TIER_EFFECTIVE'] = tier
    from . import api
    t0 = time.time()
    out = api.run_native(modname, proofname, rng=random.Random(seed),
                         repo=REPO)
    return {'module': modname, 'proof': proofname, 'seed': seed,
            'evaluations': sum(out['counts'].values()),
            'distinct_checks': len(out['counts']),
            'counts': out['counts'], 'nfailed': out['nfailed'],
            'first_fail': out['first_fail'], 'exception': out['exception'],
            'fail_details': out['fail_details'],
            'bound': out.get('bound', ''),
            'wall_s': round(time.time() - t0, 2)}


def file_sha(path):
    with open(path, 'rb') as f:
        return hashlib.sha256(f.read()).hexdigest()


def canary_pins():
    try:
        with open(os.path.join(VERIF, 'canary_pins.json')) as f:
            return json.load(f)['files']
    except Exception:
        return {}


def tagged_for(name, prop):
    """Obligation names may end in '@C01,C07': the properties they serve."""
    if '@' not in name:
        return True
    return prop in name.rsplit('@', 1)[1].split(',')


def mutate_source(path, old, new=None):
    """old/new strings, or a list of (old, new) pairs as `old`."""
    with open(path) as f:
        src = f.read()
    edits = old if isinstance(old, (list, tuple)) else [(old, new)]
    for o, n in edits:
        if src.count(o) != 1:
            return None
        src = src.replace(o, n)
    return src


class Report:
    def __init__(self, prop, tier, seed):
        self.prop = prop
        self.tier = tier
        self.seed = seed
        self.violations = []
        self.known = []
        self.undecided = []
        self.crashes = []
        self.cross = {}
        self.lines = []

    def say(self, s):
        print(s)
        sys.stdout.flush()


def write_replay(prop, obligation, payload):
    d = os.path.join(OUT, 'replays', prop)
    os.makedirs(d, exist_ok=True)
    p = os.path.join(d, sanitize(obligation) + '.json')
    with open(p, 'w') as f:
        json.dump(payload, f, indent=1, default=str)
    return p


def manifest_level(prop):
    try:
        with open(os.path.join(VERIF, 'MANIFEST.json')) as f:
            m = json.load(f)
        for c in m['checks']:
            if c['property_id'] == prop:
                return c['level_claimed']['category']
    except Exception:
        pass
    return 'proof'


def check_property(prop, tier='quick', seed=0):
    t0 = time.time()
    os.environ['VERIF_TIER_EFFECTIVE'] = tier
    rep = Report(prop, tier, seed)
    opts = {'query_timeout_ms': 10000 if tier == 'quick' else 60000,
            'branch_timeout_ms': 5000 if tier == 'quick' else 20000,
            'proof_wall_limit_s': 420 if tier == 'quick' else 3600,
            'cross_check': tier != 'quick'}
    known = load_known()
    kf = [k for k in known.get('findings', []) if k['property'] == prop]

    # ------------------------------------------------- proofs + canaries
    # (one pool: every proof and every canary run is an independent job)
    canaries = []
    for modname in R.contract_modules():
        if prop not in R.props_of_module(modname):
            continue
        m = native_contract_module(modname)
        for c in getattr(m, 'CANARIES', []):
            if c.get('prop', prop) == prop:
                canaries.append((modname, c))
    tasks = R.property_tasks(prop, opts)
    ctasks = []
    pins = canary_pins()
    for ci, (modname, c) in enumerate(canaries):
        full = os.path.join(REPO, c['file'])
        src = mutate_source(full, c.get('edits') or c['old'], c.get('new'))
        # canaries test the ENGINE and the CONTRACTS on the source they were
        # validated on (canary_pins.json: sha256 per file).  On a different
        # source text a textual mutant may have become equivalent or fall
        # outside the engine's subset: it is skipped, not held against the
        # tree being checked.
        want = pins.get(c['file'])
        if src is not None and want is not None and file_sha(full) != want:
            src = None
            c['_stale'] = 'the source file differs from the version the ' \
                          'canary was validated on'
        c['_src'] = src
        if src is None:
            continue
        for pn in c['proofs']:
            ctasks.append((ci, (modname, pn, opts, {full: src})))
    with ProcessPoolExecutor(max_workers=16) as pool:
        futs = [pool.submit(R._job, t) for t in tasks]
        cfuts = [(ci, pool.submit(R._job, t)) for ci, t in ctasks]
        results = [f.result() for f in futs]
        cresults = [(ci, f.result()) for ci, f in cfuts]
    if not results:
        rep.say('no proofs registered for %s' % prop)
        return finish(rep, prop, tier, seed, t0, [], [], [], kf, 3)
    ob_rows = []
    functions = set()
    trusted = set()
    inlined = set()
    paths = 0
    for r in results:
        paths += r.get('paths', 0)
        for t in r.get('targets', []):
            functions.add('%s:%s' % (t[0], t[1]))
        trusted.update(r.get('assumes', []))
        trusted.update(r.get('trusted', []))
        inlined.update(r.get('inlined', []))
        for obn, verdict in (r.get('cross_check') or {}).items():
            rep.cross[verdict] = rep.cross.get(verdict, 0) + 1
            if verdict == 'sat':
                rep.crashes.append('%s.%s: solver disagreement on %s: z3 '
                                   'unsat, cvc5 sat' % (r['module'],
                                                        r['proof'], obn))
        if not any(e[0] != 'crash' for e in r['errors']):
            for v in r.get('vacuous', []):
                rep.crashes.append('%s.%s: obligation %s was only reached '
                                   'under an unsatisfiable path condition '
                                   '(vacuous contract)' % (r['module'],
                                                           r['proof'], v))
            for v in r.get('uncovered', []):
                rep.crashes.append('%s.%s: cover point %s was not reached '
                                   'on any feasible path' % (
                                       r['module'], r['proof'], v))
        for e in r['errors']:
            if e[0] == 'crash':
                rep.crashes.append('%s.%s: %s' % (r['module'], r['proof'],
                                                  e[1][-1500:]))
            else:
                rep.undecided.append('%s.%s: %s: %s' % (
                    r['module'], r['proof'], e[0], e[1][:300]))
        for ob in r['obligations']:
            if not tagged_for(ob['name'], prop):
                continue
            row = dict(ob)
            row['proof'] = r['proof']
            row['module'] = r['module']
            row['id'] = '%s/%s/%s' % (prop, r['proof'], ob['name'])
            ob_rows.append(row)

    # ------------------------------------------- schema lemmas (Lean 4)
    # code-independent lemmas that compose the per-function obligations
    # (e.g. init + step + uniqueness => every chunking); re-checked by the
    # Lean kernel on every run.  A failure is a checker error, not a
    # violation: the lemma does not mention the code.
    import shutil
    import subprocess
    for modname in R.contract_modules():
        if prop not in R.props_of_module(modname):
            continue
        m = native_contract_module(modname)
        for lem in getattr(m, 'LEMMAS', []):
            if prop not in lem['props']:
                continue
            t1 = time.time()
            lean = shutil.which('lean') or '/opt/veriftools/lean/bin/lean'
            try:
                r = subprocess.run([lean, os.path.join(VERIF, lem['file'])],
                                   capture_output=True, text=True,
                                   timeout=600)
                ok = r.returncode == 0 and 'error' not in r.stdout \
                    and 'sorry' not in r.stdout
                out = (r.stdout + r.stderr)[-600:]
            except Exception as e:  # lean missing, timeout
                ok = False
                out = repr(e)
            with open(os.path.join(VERIF, lem['file'])) as f:
                txt = f.read()
            if 'sorry' in txt or 'axiom ' in txt:
                ok = False
                out = 'sorry/axiom in the lemma text'
            row = {'name': lem['name'], 'status': 'discharged' if ok
                   else 'error', 'queries': len(lem.get('theorems', [])) or 1,
                   'discharged': (len(lem.get('theorems', [])) or 1)
                   if ok else 0, 'failed': [], 'n_failed': 0,
                   'undecided': [], 'time_s': round(time.time() - t1, 2),
                   'backends': ['lean-4 kernel'], 'proof': 'lean:' +
                   lem['file'], 'module': modname,
                   'id': '%s/lean/%s' % (prop, lem['name'])}
            ob_rows.append(row)
            if not ok:
                rep.crashes.append('Lean lemma %s did not check: %s' % (
                    lem['file'], out))

    # ------------------------------------------------------------ canaries
    canary_rows = []
    for ci, (modname, c) in enumerate(canaries):
        full = os.path.join(REPO, c['file'])
        src = c['_src']
        row = {'name': c['name'], 'file': c['file']}
        if src is None:
            row['status'] = 'stale (%s) - skipped' % c.get(
                '_stale', 'pattern not found exactly once; the source '
                'changed')
            canary_rows.append(row)
            continue
        refuted = None
        for cj, r in cresults:
            if cj != ci:
                continue
            for ob in r['obligations']:
                if ob['status'] == 'refuted' and (
                        not c.get('expect') or c['expect'] in ob['name']):
                    refuted = (r['proof'], ob)
                    break
            if refuted:
                break
        if refuted is None:
            limits = [e for cj, r in cresults if cj == ci
                      for e in r['errors'] if e[0] != 'crash']
            if limits:
                # the proofs of this canary hit an engine limit on this
                # source (unsupported construct, time-out): nothing is known
                row['status'] = 'undecided (%s)' % limits[0][1][:120]
                rep.undecided.append('canary %s: %s' % (c['name'],
                                                        limits[0][1][:200]))
            else:
                row['status'] = 'NOT REFUTED'
                rep.crashes.append('canary %s was not refuted: the engine or '
                                   'the contract is too weak' % c['name'])
        else:
            pn, ob = refuted
            row['status'] = 'refuted'
            row['obligation'] = ob['name']
            row['counterexample'] = ob['failed'][0].get('inputs')
            nr = native_run(modname, pn, ob['failed'][0].get('inputs', {}),
                            {full: src})
            row['replayed_on_mutant'] = bool(
                nr.get('failed') or nr.get('exception'))
        canary_rows.append(row)

    # ------------------------------------------------------------ bounded
    n_samples = 150 if tier == 'quick' else 3000
    budget = 20 if tier == 'quick' else 240
    jobs = []
    for r in results:
        if not r.get('native', True):
            continue
        s = int(hashlib.sha1(('%s/%s/%d' % (r['module'], r['proof'], seed))
                             .encode()).hexdigest()[:8], 16)
        jobs.append((r['module'], r['proof'], s, n_samples, budget))
    btasks = R.property_tasks(prop, opts, kind='bounded')
    # thorough: every bounded family is run under 8 derived seeds (its
    # random part differs, its enumerated part repeats), merged below
    reps = 1 if tier == 'quick' else 8
    bjobs = [(t[0], t[1], seed if k == 0 else seed * 1000 + k, tier)
             for t in btasks for k in range(reps)]
    with ProcessPoolExecutor(max_workers=16) as pool:
        sf = [pool.submit(_sample_job, j) for j in jobs]
        bf = [pool.submit(_bounded_job, j) for j in bjobs]
        samples = [f.result() for f in sf]
        bruns = [f.result() for f in bf]

    # ------------------------------------------------------------ verdicts
    def known_match(ob_id):
        for k in kf:
            if k['obligation'] == ob_id:
                return k
        return None

    refuted_known = []
    handled = set()
    for row in ob_rows:
        if row['status'] == 'refuted':
            k = known_match(row['id'])
            cex = row['failed'][0]
            if k is not None:
                w = k['witness']
                nr = native_run(w['module'], w['proof'], w['inputs'])
                still = (row['name'] in (nr.get('failed') or [])) or (
                    row['name'] == 'no-unexpected-exception'
                    and nr.get('exception'))
                if still:
                    rep.known.append((row['id'], k['what']))
                    refuted_known.append(row['id'])
                    handled.add(row['id'])
                    continue
            nr = native_run(row['module'], row['proof'],
                            cex.get('inputs', {}))
            reproduced = (row['name'] in (nr.get('failed') or [])) or (
                row['name'] == 'no-unexpected-exception'
                and bool(nr.get('exception')))
            payload = {'property': prop, 'obligation': row['id'],
                       'module': row['module'], 'proof': row['proof'],
                       'inputs': cex.get('inputs', {}),
                       'path_decisions': cex.get('decisions'),
                       'exception_on_path': cex.get('exception'),
                       'solver': row['backends'] or ['z3'],
                       'verifier_output': 'obligation refuted (sat) on %d of '
                       '%d path queries' % (row['n_failed'], row['queries']),
                       'native_replay': nr, 'reproduced': reproduced,
                       'repo': REPO}
            p = write_replay(prop, row['id'], payload)
            rep.violations.append((row['id'], p, reproduced))
            handled.add(row['id'])
        elif row['status'] in ('undecided',):
            rep.undecided.append('%s: %s' % (row['id'],
                                             '; '.join(row['undecided'])))
    bounded_rows = []
    for s in samples:
        bounded_rows.append({k: s[k] for k in (
            'module', 'proof', 'evaluations', 'feasible', 'distinct',
            'wall_s')})
        fails = dict(s['failures'])
        for et, v in s['exceptions'].items():
            fails.setdefault('no-unexpected-exception', v['inputs'])
        for nm, inputs in fails.items():
            if not tagged_for(nm, prop):
                continue
            ob_id = '%s/%s/%s' % (prop, s['proof'], nm)
            if ob_id in handled:
                continue
            handled.add(ob_id)
            k = known_match(ob_id)
            if k is not None:
                w = k['witness']
                nr = native_run(w['module'], w['proof'], w['inputs'])
                if nm in (nr.get('failed') or []) or (
                        nm == 'no-unexpected-exception'
                        and nr.get('exception')):
                    rep.known.append((ob_id, k['what']))
                    continue
            payload = {'property': prop, 'obligation': ob_id,
                       'module': s['module'], 'proof': s['proof'],
                       'inputs': inputs, 'found_by': 'bounded tier (native '
                       'execution of the contract on sampled inputs)',
                       'reproduced': True, 'repo': REPO,
                       'exceptions': s['exceptions']}
            proved = [r for r in ob_rows if r['id'] == ob_id
                      and r['status'] == 'discharged']
            if proved:
                payload['engine_disagreement'] = (
                    'the proof tier discharged this obligation but a real '
                    'execution violates it: engine or encoding unsound here')
            p = write_replay(prop, ob_id, payload)
            rep.violations.append((ob_id, p, True))

    merged = {}
    for b in bruns:
        key = (b['module'], b['proof'])
        m = merged.get(key)
        if m is None:
            merged[key] = b
            b['seeds'] = [b['seed']]
            continue
        m['seeds'].append(b['seed'])
        m['evaluations'] += b['evaluations']
        m['wall_s'] = round(m['wall_s'] + b['wall_s'], 2)
        for nm, c in b['counts'].items():
            m['counts'][nm] = m['counts'].get(nm, 0) + c
        m['distinct_checks'] = len(m['counts'])
        for nm, c in b['nfailed'].items():
            m['nfailed'][nm] = m['nfailed'].get(nm, 0) + c
            m['first_fail'].setdefault(nm, b['first_fail'].get(nm))
            lst = m['fail_details'].setdefault(nm, [])
            for d in b['fail_details'].get(nm, []):
                if d not in lst:
                    lst.append(d)
        if m['exception'] is None:
            m['exception'] = b['exception']
    bruns = list(merged.values())
    for b in bruns:
        bounded_rows.append({
            'module': b['module'], 'proof': b['proof'], 'kind': 'bounded '
            'family (enumerated by the contract script itself)',
            'bound': b['bound'], 'seeds': b.get('seeds'),
            'evaluations': b['evaluations'],
            'feasible': b['evaluations'],
            'distinct': b['distinct_checks'], 'wall_s': b['wall_s'],
            'checks': b['counts']})
        fails = dict((nm, b['first_fail'].get(nm)) for nm in b['nfailed'])
        if b['exception'] is not None:
            fails['no-unexpected-exception'] = json.dumps(b['exception'])
        for nm, detail in fails.items():
            if not tagged_for(nm, prop):
                continue
            ob_id = '%s/%s/%s' % (prop, b['proof'], nm)
            if ob_id in handled:
                continue
            handled.add(ob_id)
            k = known_match(ob_id)
            details = b['fail_details'].get(nm, [detail])
            if k is not None and len(details) < 50 and all(
                    d in k.get('cases', []) for d in details):
                rep.known.append((ob_id, k['what']))
                continue
            if k is not None:
                new = [d for d in details if d not in k.get('cases', [])]
                detail = new[0] if new else detail
            payload = {'property': prop, 'obligation': ob_id,
                       'module': b['module'], 'proof': b['proof'],
                       'inputs': {}, 'seed': b['seed'],
                       'failing_case': detail,
                       'failures_of_this_check': b['nfailed'].get(nm),
                       'found_by': 'bounded family (native execution)',
                       'reproduced': True, 'repo': REPO}
            p = write_replay(prop, ob_id, payload)
            rep.violations.append((ob_id, p, True))

    code = 0
    if rep.crashes:
        code = 3
    if rep.undecided and code == 0:
        code = 2
    if rep.violations:
        code = 1
    return finish(rep, prop, tier, seed, t0, ob_rows, canary_rows,
                  bounded_rows, kf, code, functions=functions,
                  trusted=trusted, inlined=inlined, paths=paths,
                  refuted_known=refuted_known, results=results)


def finish(rep, prop, tier, seed, t0, ob_rows, canary_rows, bounded_rows, kf,
           code, functions=(), trusted=(), inlined=(), paths=0,
           refuted_known=(), results=()):
    for ob_id, what in rep.known:
        rep.say('KNOWN-FINDING: property=%s %s [%s]' % (prop, what, ob_id))
    for ob_id, p, reproduced in rep.violations:
        rep.say('VIOLATION property=%s replay=%s%s' % (
            prop, p, '' if reproduced else ' no-failing-input-found'))
        rep.say('  obligation: %s' % ob_id)
    for u in rep.undecided:
        rep.say('UNDECIDED %s' % u)
    for c in rep.crashes:
        rep.say('CHECKER-ERROR %s' % c)
    counted = [r for r in ob_rows if r['id'] not in set(refuted_known)]
    n_ob = len(counted)
    n_dis = len([r for r in counted if r['status'] == 'discharged'])
    level = manifest_level(prop)
    ev_total = sum(b['evaluations'] for b in bounded_rows)
    ev_distinct = sum(b['distinct'] for b in bounded_rows)
    solver_time = sum(r.get('solver_time_s', 0) for r in results)
    samples = []
    for r in counted[:6]:
        samples.append({'obligation': r['id'], 'status': r['status'],
                        'path_queries': r['queries'],
                        'backend': r['backends'], 'solver_s': r['time_s']})
    for c in canary_rows[:3]:
        samples.append({'canary': c})
    ev = {
        'property_id': prop, 'tier': tier, 'seed': seed, 'level': level,
        'coverage': {
            'obligations': n_ob, 'discharged': n_dis,
            'checker_cmd': './check %s --tier %s' % (prop, tier),
            'trusted_base': sorted(set(trusted)) + [
                'pyvc VC generator (unverified; guarded by canaries and the '
                'native cross-check)', 'z3 %s' % _z3_version(),
                'A-STATIC: no monkey-patching / dynamic attributes in the '
                'verified classes'],
            'functions_under_contract': sorted(functions),
            'functions_inlined': sorted(inlined),
            'paths_explored': paths,
            'path_queries': sum(r['queries'] for r in ob_rows),
            'solver_time_s': round(solver_time, 2),
            'obligation_list': [
                {'id': r['id'], 'status': r['status'],
                 'queries': r['queries'], 'backend': r['backends'],
                 'solver_s': r['time_s']} for r in ob_rows],
            'second_back_end': {
                'what': 'thorough tier: the first z3-discharged query of '
                'every obligation of every proof is also put to cvc5 '
                '(10 s); unknown/timeouts are not counted against z3, a '
                '`sat` is a checker error',
                'cvc5_agrees_unsat': rep.cross.get('unsat', 0),
                'cvc5_unknown_or_timeout': rep.cross.get('unknown', 0),
                'cvc5_disagrees_sat': rep.cross.get('sat', 0)},
            'refuted_known': list(refuted_known),
            'canaries': canary_rows,
            'bounded_checks': {
                'label': 'bounded stand-in / cross-check: the contract '
                'scripts executed natively on sampled inputs against the '
                'real imported code; never counted in obligations',
                'evaluations': ev_total, 'distinct_inputs': ev_distinct,
                'per_proof': bounded_rows},
            'evaluations': ev_total,
            'distinct_nontrivial': ev_distinct,
            'rule': 'bounded tier: seeded random inputs (boundary-biased) '
                    'satisfying each contract\'s assumptions; distinct = '
                    'distinct input assignments that reached the checks',
            'samples': samples,
            'known_findings_reported': [k for k, _ in rep.known],
            'undecided': rep.undecided,
        },
        'assumptions': sorted(set(trusted)),
        'wall_s': round(time.time() - t0, 2),
        'violations': len(rep.violations),
    }
    os.makedirs(os.path.join(OUT, 'evidence'), exist_ok=True)
    with open(os.path.join(OUT, 'evidence', prop + '.json'), 'w') as f:
        json.dump(ev, f, indent=1, default=str)
    rep.say('%s %s: %d/%d obligations discharged, %d paths, %d canaries, '
            '%d native evaluations, %.1fs -> exit %d' % (
                prop, tier, n_dis, n_ob, paths, len(canary_rows), ev_total,
                time.time() - t0, code))
    return code


def _z3_version():
    import z3
    return z3.get_version_string()


def replay_file(path):
    with open(path) as f:
        d = json.load(f)
    nr = native_run(d['module'], d['proof'], d.get('inputs', {}),
                    seed=d.get('seed'))
    short = d['obligation'].split('/', 2)[-1]
    failed = nr.get('failed') or []
    bad = short in failed or (short == 'no-unexpected-exception'
                              and nr.get('exception'))
    print(json.dumps({'obligation': d['obligation'], 'reproduced': bool(bad),
                      'native': nr}, indent=1, default=str))
    return 1 if bad else 0


def main(argv=None):
    import argparse
    ap = argparse.ArgumentParser()
    ap.add_argument('prop', nargs='?')
    ap.add_argument('--tier', default=os.environ.get('VERIF_TIER', 'quick'))
    ap.add_argument('--replay')
    a = ap.parse_args(argv)
    if a.replay:
        return replay_file(a.replay)
    seed = int(os.environ.get('VERIF_SEED', '0') or 0)
    try:
        return check_property(a.prop, a.tier, seed)
    except Exception:
        import traceback
        traceback.print_exc()
        return 3


if __name__ == '__main__':
    sys.exit(main())

"""Python regular expressions -> z3 regular languages.

The pattern is parsed by CPython's own front end (re._parser), so the syntax
tree is the one the real engine compiles; this module translates the subset
of node kinds used by the verified code into z3 RegLan terms.  Character
categories (\\s \\d \\w) are computed from CPython itself over the code points
z3 strings can hold.  What is NOT modelled: backtracking order / greedy
choice of groups (only the language is), look-around, back-references.
`$` is translated faithfully: end of string or just before a final newline.

Universe: code points 0 .. MAXCP (z3's string theory); lemmas are stated over
strings of such code points (assumption A-RE-UNIVERSE).
"""
import re
import re._parser as sre_parse
import re._constants as C

import z3

from .core import Unsupported

MAXCP = 0x2FFFF

_cat_cache = {}


def _ranges_of(pred):
    out = []
    start = None
    for c in range(MAXCP + 1):
        if 0xD800 <= c <= 0xDFFF:
            ok = False
        else:
            ok = pred(chr(c))
        if ok and start is None:
            start = c
        elif not ok and start is not None:
            out.append((start, c - 1))
            start = None
    if start is not None:
        out.append((start, MAXCP))
    return out


def category_ranges(cat):
    if cat in _cat_cache:
        return _cat_cache[cat]
    pats = {C.CATEGORY_DIGIT: r'\d', C.CATEGORY_SPACE: r'\s',
            C.CATEGORY_WORD: r'\w'}
    neg = {C.CATEGORY_NOT_DIGIT: C.CATEGORY_DIGIT,
           C.CATEGORY_NOT_SPACE: C.CATEGORY_SPACE,
           C.CATEGORY_NOT_WORD: C.CATEGORY_WORD}
    if cat in pats:
        rx = re.compile(pats[cat])
        r = _ranges_of(lambda ch: rx.match(ch) is not None)
    elif cat in neg:
        r = complement_ranges(category_ranges(neg[cat]))
    else:
        raise Unsupported('regex category %s' % cat)
    _cat_cache[cat] = r
    return r


def complement_ranges(rs):
    rs = normalize(rs)
    out = []
    prev = 0
    for a, b in rs:
        if a > prev:
            out.append((prev, a - 1))
        prev = b + 1
    if prev <= MAXCP:
        out.append((prev, MAXCP))
    return out


def normalize(rs):
    rs = sorted(rs)
    out = []
    for a, b in rs:
        if out and a <= out[-1][1] + 1:
            out[-1] = (out[-1][0], max(out[-1][1], b))
        else:
            out.append((a, b))
    return out


_fold_index = None


def _index():
    global _fold_index
    if _fold_index is None:
        idx = {}
        for c in range(MAXCP + 1):
            if 0xD800 <= c <= 0xDFFF:
                continue
            ch = chr(c)
            for k in (ch.lower(), ch.upper(), ch.casefold()):
                if k != ch or True:
                    idx.setdefault(k, []).append(c)
        _fold_index = idx
    return _fold_index


_eq_cache = {}


def case_variants(c):
    """Code points the real engine treats as equal to chr(c) under
    IGNORECASE (candidates from str case mappings, confirmed with re)."""
    if c in _eq_cache:
        return _eq_cache[c]
    ch = chr(c)
    idx = _index()
    cand = set([c])
    for k in (ch.lower(), ch.upper(), ch.casefold()):
        cand.update(idx.get(k, ()))
    rx = re.compile(re.escape(ch), re.IGNORECASE)
    out = sorted(d for d in cand if rx.fullmatch(chr(d)))
    _eq_cache[c] = out
    return out


def casefold_ranges(rs):
    """Close a set of code points under the engine's IGNORECASE relation."""
    out = list(rs)
    for a, b in rs:
        if b - a > 20000:
            # huge ranges (negated classes, categories): their complement is
            # what matters; close the complement's variants instead
            continue
        for c in range(a, b + 1):
            if 0xD800 <= c <= 0xDFFF:
                continue
            for d in case_variants(c):
                out.append((d, d))
    return normalize(out)


def ranges_to_re(rs):
    rs = normalize(rs)
    if not rs:
        return z3.Empty(z3.ReSort(z3.StringSort()))
    parts = []
    for a, b in rs:
        if a == b:
            parts.append(z3.Re(z3.StringVal(cp(a))))
        else:
            parts.append(z3.Range(cp(a), cp(b)))
    return parts[0] if len(parts) == 1 else z3.Union(*parts)


def cp(c):
    """z3 string literal for one code point."""
    if 32 <= c < 127 and chr(c) not in '\\':
        return chr(c)
    return '\\u{%x}' % c


ANY = None


def sigma():
    return z3.Range(cp(0), cp(MAXCP))


def sigma_star():
    return z3.Star(sigma())


EPS = None


def eps():
    return z3.Re(z3.StringVal(''))


class Translator:
    def __init__(self, flags):
        self.flags = flags
        self.groups = {}
        self.end_anchored = False

    def set_ranges(self, items):
        rs = []
        negate = False
        for op, av in items:
            if op is C.NEGATE:
                negate = True
            elif op is C.LITERAL:
                rs.append((av, av))
            elif op is C.RANGE:
                rs.append((av[0], av[1]))
            elif op is C.CATEGORY:
                rs.extend(category_ranges(av))
            else:
                raise Unsupported('regex set item %s' % op)
        rs = normalize(rs)
        if self.flags & re.IGNORECASE:
            rs = casefold_ranges(rs)
        if negate:
            rs = complement_ranges(rs)
        return rs

    def seq(self, items, at_start, at_end):
        """items: list of (op, av).  Returns RegLan."""
        parts = []
        n = len(items)
        for i, (op, av) in enumerate(items):
            first = at_start and i == 0
            last = at_end and i == n - 1
            parts.append(self.node(op, av, first, last))
        parts = [p for p in parts if p is not None]
        if not parts:
            return eps()
        return parts[0] if len(parts) == 1 else z3.Concat(*parts)

    def node(self, op, av, first, last):
        if op is C.LITERAL:
            rs = [(av, av)]
            if self.flags & re.IGNORECASE:
                rs = casefold_ranges(rs)
            return ranges_to_re(rs)
        if op is C.NOT_LITERAL:
            rs = [(av, av)]
            if self.flags & re.IGNORECASE:
                rs = casefold_ranges(rs)
            return ranges_to_re(complement_ranges(rs))
        if op is C.ANY:
            if self.flags & re.DOTALL:
                return sigma()
            return ranges_to_re(complement_ranges([(10, 10)]))
        if op is C.IN:
            return ranges_to_re(self.set_ranges(av))
        if op is C.BRANCH:
            _, alts = av
            rs = [self.seq(list(a), first, last) for a in alts]
            return z3.Union(*rs) if len(rs) > 1 else rs[0]
        if op is C.SUBPATTERN:
            group, add_flags, del_flags, p = av
            if add_flags or del_flags:
                raise Unsupported('inline regex flags')
            r = self.seq(list(p), first, last)
            if group is not None:
                self.groups[group] = r
            return r
        if op in (C.MAX_REPEAT, C.MIN_REPEAT):
            lo, hi, p = av
            r = self.seq(list(p), False, False)
            if hi is C.MAXREPEAT:
                if lo == 0:
                    return z3.Star(r)
                if lo == 1:
                    return z3.Plus(r)
                return z3.Concat(z3.Loop(r, lo, lo), z3.Star(r))
            return z3.Loop(r, lo, hi)
        if op is C.AT:
            if av in (C.AT_BEGINNING, C.AT_BEGINNING_STRING):
                if first:
                    return None
                raise Unsupported('^ not at the start of the pattern')
            if av is C.AT_END_STRING:
                if last:
                    self.end_anchored = True
                    return None
                raise Unsupported('\\Z not at the end of the pattern')
            if av is C.AT_END:
                if last:
                    self.end_anchored = True
                    # end of string, or just before a final newline
                    return z3.Option(z3.Re(z3.StringVal('\n')))
                raise Unsupported('$ not at the end of the pattern')
            raise Unsupported('regex anchor %s' % av)
        raise Unsupported('regex construct %s' % op)


def pattern_re(pattern, flags=0):
    """RegLan of the strings the pattern matches entirely (anchors at the
    pattern ends are honoured)."""
    tree = sre_parse.parse(pattern, flags)
    flags = flags | tree.state.flags
    t = Translator(flags)
    return t.seq(list(tree), True, True), t


class Lang:
    """A language given by a Python pattern and a matching mode."""

    def __init__(self, pattern, flags, mode):
        self.pattern = pattern
        self.flags = flags
        self.mode = mode      # 'full' | 'match' | 'search'
        self._re = None

    def z3(self):
        if self._re is None:
            r, t = pattern_re(self.pattern, self.flags)
            if self.mode == 'match':
                if not t.end_anchored:
                    r = z3.Concat(r, sigma_star())
            elif self.mode == 'search':
                if t.end_anchored:
                    r = z3.Concat(sigma_star(), r)
                else:
                    r = z3.Concat(sigma_star(), r, sigma_star())
            self._re = r
        return self._re

    # native side
    def contains(self, s):
        rx = re.compile(self.pattern, self.flags)
        if self.mode == 'full':
            # "matches entirely" with `$` allowed to leave a final newline
            m = rx.match(s)
            return m is not None and (m.end() == len(s) or (
                m.end() == len(s) - 1 and s.endswith('\n')
                and self.pattern.endswith('$')))
        if self.mode == 'match':
            return rx.match(s) is not None
        return rx.search(s) is not None

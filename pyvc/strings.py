"""pyvc strings: the part of str/bytes-text behaviour the verified code needs.

* `fmt % args` with symbolic arguments gives an OpaqueStr that remembers the
  format and the arguments; comparing it with a constant is decided exactly
  for fixed-width hexadecimal conversions (`%08X`, `%04X`, `%02X`): the
  rendering is injective there, so equality reduces to integer equalities.
* SStr values are z3 String terms (used by the string-property proofs).
"""
import ast
import re

import z3

from .core import (Unsupported, PyRaise, SInt, SReal, SBool, SBytes, SStr,
                   Opaque, Obj, mk_int, mk_bool, mk_real, zint, zreal, zbool,
                   is_symbolic)
from . import ops
from .ops import OpaqueStr


def zstr(v):
    if isinstance(v, SStr):
        return v.e
    if isinstance(v, str):
        return z3.StringVal(v)
    raise Unsupported('not a string term: %r' % (v,))


def mk_str(e):
    e = z3.simplify(e)
    if z3.is_string_value(e):
        return e.as_string()
    return SStr(e)


def str_binop(it, op, a, b):
    from .stdlib import check_percent
    if op is ast.Mod and isinstance(a, str):
        if isinstance(b, tuple) or isinstance(b, dict):
            args = b
        else:
            args = (b,)
        if ops._plain(b) if not isinstance(b, dict) else all(
                ops._plain(v) for v in b.values()):
            return it.host_call(lambda: a % b)
        r = check_percent(it, a, args)
        # a format made of literal text and plain %s of str values is their
        # concatenation
        if isinstance(args, tuple) and all(
                isinstance(v, (str, SStr)) for v in args):
            import re as _re
            pieces = _re.split(r'(%s|%%)', a)
            if not any('%' in p for p in pieces if p not in ('%s', '%%')) \
                    and pieces.count('%s') == len(args):
                out, k = [], 0
                for p in pieces:
                    if p == '%s':
                        out.append(zstr(args[k]))
                        k += 1
                    elif p == '%%':
                        out.append(z3.StringVal('%'))
                    elif p:
                        out.append(z3.StringVal(p))
                if not out:
                    return ''
                return mk_str(z3.Concat(*out) if len(out) > 1 else out[0])
        return r
    if op is ast.Mod and isinstance(a, OpaqueStr):
        return OpaqueStr('percent', (a, b))
    if op is ast.Add:
        if isinstance(a, (str, SStr)) and isinstance(b, (str, SStr)):
            return mk_str(z3.Concat(zstr(a), zstr(b)))
        if isinstance(a, (str, SStr, OpaqueStr)) and isinstance(
                b, (str, SStr, OpaqueStr)):
            return OpaqueStr('concat', (a, b))
        it.throw(TypeError, 'can only concatenate str to str')
    if op is ast.Mult and isinstance(a, str) and isinstance(b, int):
        return a * b
    if op is ast.Mod and isinstance(a, SStr):
        raise Unsupported('%% with symbolic format')
    raise Unsupported('string operator %s on %r, %r' % (op.__name__, a, b))


_HEXF = re.compile(r'%0(\d+)X')


def fmt_eq_const(it, o, const):
    """OpaqueStr('percent', (fmt, args)) == const, for fixed-width hex."""
    fmt, args = o.parts
    if not isinstance(fmt, str) or not isinstance(args, tuple):
        return None
    pos = 0
    ai = 0
    cpos = 0
    conds = []
    while pos < len(fmt):
        m = _HEXF.match(fmt, pos)
        if m:
            w = int(m.group(1))
            if ai >= len(args):
                return None
            v = args[ai]
            ai += 1
            if not isinstance(v, (int, SInt)):
                return None
            ve = zint(v)
            # exactly w digits only if 0 <= v < 16**w (else wider / '-')
            if not it.path.implied(z3.And(ve >= 0, ve < 16 ** w)):
                return None
            piece = const[cpos:cpos + w]
            cpos += w
            if len(piece) != w or not re.fullmatch('[0-9A-F]*', piece):
                return False
            conds.append(ve == int(piece, 16))
            pos = m.end()
        elif fmt[pos] == '%':
            return None
        else:
            if const[cpos:cpos + 1] != fmt[pos]:
                return False
            cpos += 1
            pos += 1
    if cpos != len(const) or ai != len(args):
        return False if ai == len(args) else None
    return mk_bool(z3.And(conds)) if conds else True


def str_eq(it, a, b):
    if isinstance(a, OpaqueStr) or isinstance(b, OpaqueStr):
        o, c = (a, b) if isinstance(a, OpaqueStr) else (b, a)
        if isinstance(c, str) and o.kind == 'percent':
            r = fmt_eq_const(it, o, c)
            if r is not None:
                return r
        if not isinstance(c, (str, SStr, OpaqueStr)):
            return False
        raise Unsupported('comparison of an untracked string (%s)' % o.kind)
    if isinstance(a, (str, SStr)) and isinstance(b, (str, SStr)):
        return mk_bool(zstr(a) == zstr(b))
    return False


def str_order(it, op, a, b):
    if isinstance(a, (str, SStr)) and isinstance(b, (str, SStr)):
        x, y = zstr(a), zstr(b)
        return mk_bool({ast.Lt: x < y, ast.LtE: x <= y, ast.Gt: y < x,
                        ast.GtE: y <= x}[op])
    raise Unsupported('string ordering on %r, %r' % (a, b))


def _is_opaque_app(e):
    try:
        return (z3.is_app(e) and e.num_args() > 0
                and e.decl().kind() == z3.Z3_OP_UNINTERPRETED)
    except Exception:
        return False


def str_contains(it, container, x):
    if isinstance(container, SStr) and isinstance(x, str) and \
            _is_opaque_app(container.e):
        # substring test on the result of an uninterpreted operator (e.g.
        # s.lower()): itself an uninterpreted predicate, one per constant -
        # code and contract share it; relations between different constants
        # are dropped (over-approximation, sound for proofs)
        f = ufun('py_contains_' + x.encode().hex(), _S, z3.BoolSort())
        return mk_bool(f(container.e))
    if isinstance(container, (str, SStr)) and isinstance(x, (str, SStr)):
        return mk_bool(z3.Contains(zstr(container), zstr(x)))
    if isinstance(container, (str, SStr, OpaqueStr)) and not isinstance(
            x, (str, SStr, OpaqueStr)):
        it.throw(TypeError, "'in <string>' requires string as left operand")
    raise Unsupported('substring test on %r' % (container,))


def str_getitem(it, s, k):
    if isinstance(s, OpaqueStr):
        raise Unsupported('subscript of untracked string')
    e = zstr(s)
    n = z3.Length(e)
    if isinstance(k, slice):
        if k.step is not None:
            raise Unsupported('string slice step')
        lo = ops.clamp_index(k.start, n, z3.IntVal(0))
        hi = ops.clamp_index(k.stop, n, n)
        ln = z3.If(hi > lo, hi - lo, z3.IntVal(0))
        return mk_str(z3.SubString(e, lo, ln))
    ke = zint(k)
    if not it.truth(mk_bool(z3.And(ke >= -n, ke < n))):
        it.throw(IndexError, 'string index out of range')
    idx = z3.If(ke < 0, n + ke, ke)
    return mk_str(z3.SubString(e, idx, 1))


_S = z3.StringSort()
_ufuns = {}


def ufun(name, *sorts):
    """Uninterpreted function standing for a str operation whose meaning is
    not needed (only that code and contract apply the same operation)."""
    key = (name,) + tuple(str(x) for x in sorts)
    f = _ufuns.get(key)
    if f is None:
        f = z3.Function(name, *sorts)
        _ufuns[key] = f
    return f


def int_ok(e):
    return ufun('py_int_ok', _S, z3.BoolSort())(e)


def int_val(e):
    return ufun('py_int_val', _S, z3.IntSort())(e)


def float_ok(e):
    return ufun('py_float_ok', _S, z3.BoolSort())(e)


def float_val(e):
    return ufun('py_float_val', _S, z3.RealSort())(e)


def str_to_int(it, v):
    """int(s): defined iff py_int_ok(s) (else ValueError), value py_int_val(s)
    (uninterpreted; related to str() by the axioms added in str_of)."""
    if isinstance(v, OpaqueStr):
        raise Unsupported('int() of untracked string')
    e = zstr(v)
    if not it.truth(mk_bool(int_ok(e))):
        it.throw(ValueError, 'invalid literal for int() with base 10')
    return mk_int(int_val(e))


def str_to_float(it, v):
    if isinstance(v, OpaqueStr):
        raise Unsupported('float() of untracked string')
    e = zstr(v)
    if not it.truth(mk_bool(float_ok(e))):
        it.throw(ValueError, 'could not convert string to float')
    return mk_real(float_val(e))


def str_of(it, v):
    """str(n) for a symbolic int: the canonical decimal rendering DEC(n), with
    the axioms int(DEC(n)) == n and DEC injective (instantiated here)."""
    if isinstance(v, (SInt, SBool)) and not isinstance(v, SBool):
        t = ufun('py_str_int', z3.IntSort(), _S)(v.e)
        it.path.fact(z3.And(int_ok(t), int_val(t) == v.e,
                            ufun('py_is_canonical_int', _S,
                                 z3.BoolSort())(t)))
        return SStr(t)
    if isinstance(v, SReal):
        return SStr(ufun('py_str_float', z3.RealSort(), _S)(v.e))
    return OpaqueStr('str', (v,))


def str_method(it, recv, name, args, kw):
    hook = getattr(it, 'str_method_hook', None)
    if hook is not None:
        r = hook(it, recv, name, args, kw)
        if r is not NotImplemented:
            return r
    if isinstance(recv, OpaqueStr):
        raise Unsupported('method %s of untracked string' % name)
    if name == 'join' and isinstance(recv, str):
        items = args[0]
        if all(isinstance(x, (str, SStr)) for x in items):
            parts = []
            for i, x in enumerate(items):
                if i:
                    parts.append(z3.StringVal(recv))
                parts.append(zstr(x))
            if not parts:
                return ''
            return mk_str(z3.Concat(*parts) if len(parts) > 1 else parts[0])
        return OpaqueStr('join', tuple(items))
    if isinstance(recv, str):
        recv_e = z3.StringVal(recv)
    e = zstr(recv)
    if name in ('strip', 'lstrip', 'rstrip', 'lower', 'upper', 'title',
                'casefold', 'capitalize', 'swapcase') and all(
                    isinstance(a, str) for a in args) and not kw:
        fname = 'py_%s' % name + ''.join('_%s' % a.encode().hex()
                                         for a in args)
        r = ufun(fname, _S, _S)(e)
        if name in ('lower', 'upper') and not args:
            # ASCII text keeps its length (and stays ASCII) under case
            # mapping; nothing is said about other strings
            asc = ufun('py_isascii', _S, z3.BoolSort())
            it.path.fact(z3.Implies(asc(e), z3.And(
                asc(r), z3.Length(r) == z3.Length(e))))
        return mk_str(r)
    if name == 'encode':
        return codec_encode(it, recv, args, kw)
    if name == 'replace' and len(args) == 2 and all(
            isinstance(a, str) for a in args):
        fname = 'py_replace_%s_%s' % (args[0].encode().hex(),
                                      args[1].encode().hex())
        return mk_str(ufun(fname, _S, _S)(e))
    if name in ('isdigit', 'isalpha', 'isalnum', 'isspace', 'isprintable',
                'isupper', 'islower', 'isascii') and not args:
        return mk_bool(ufun('py_' + name, _S, z3.BoolSort())(e))
    if name in ('split', 'rsplit') and args and isinstance(args[0], str) \
            and args[0] != '':
        return split_model(it, e, name, args, kw)
    if name == 'count' and len(args) == 1 and isinstance(args[0], str) \
            and args[0] != '':
        return count_model(it, e, args[0])
    if name == 'startswith':
        return mk_bool(z3.PrefixOf(zstr(args[0]), e))
    if name == 'endswith':
        return mk_bool(z3.SuffixOf(zstr(args[0]), e))
    if name in ('partition', 'rpartition') and len(args) == 1 and not kw \
            and isinstance(args[0], str) and len(args[0]) == 1:
        zs = z3.StringVal(args[0])
        if not it.truth(mk_bool(z3.Contains(e, zs))):
            return (mk_str(e), '', '') if name == 'partition' \
                else ('', '', mk_str(e))
        a = _fresh_s(it, 'part')
        b = _fresh_s(it, 'part')
        side = a if name == 'partition' else b
        it.path.assume(mk_bool(z3.And(e == z3.Concat(a, zs, b),
                                      z3.Not(z3.Contains(side, zs)))))
        return (SStr(a), args[0], SStr(b))
    if name in ('removeprefix', 'removesuffix') and len(args) == 1 \
            and not kw and isinstance(args[0], (str, SStr)):
        a = zstr(args[0])
        la, le_ = z3.Length(a), z3.Length(e)
        if name == 'removeprefix':
            return mk_str(z3.If(z3.PrefixOf(a, e),
                                z3.SubString(e, la, le_ - la), e))
        return mk_str(z3.If(z3.SuffixOf(a, e),
                            z3.SubString(e, 0, le_ - la), e))
    if name == 'find' and len(args) == 1:
        return mk_int(z3.IndexOf(e, zstr(args[0]), 0))
    if name == 'find' and len(args) == 2 and not kw:
        from .core import zint
        st = zint(args[1])
        if it.truth(mk_bool(z3.And(st >= 0, st <= z3.Length(e)))):
            return mk_int(z3.IndexOf(e, zstr(args[0]), st))
        raise Unsupported('str.find with a start outside the string')
    if name == 'index' and len(args) == 1 and not kw:
        pos = z3.IndexOf(e, zstr(args[0]), 0)
        if it.truth(mk_bool(pos < 0)):
            it.throw(ValueError, 'substring not found')
        return mk_int(pos)
    if name == 'count' and len(args) == 1 and isinstance(args[0], str) \
            and len(args[0]) == 1:
        raise Unsupported('str.count on symbolic string')
    if name == 'format':
        return OpaqueStr('format', (recv,) + tuple(args))
    raise Unsupported('str.%s on symbolic string' % name)


def _fresh_s(it, tag):
    return z3.String('%s!%d' % (tag, next(it.path.fresh)))


def split_model(it, e, name, args, kw):
    """s.split(sep[, k]) / s.rsplit(sep[, k]) for a constant separator.
    The number of parts is decided by forking on 1, 2, ... up to a cap; a
    list longer than the cap is represented by its first `cap` parts plus one
    unconstrained tail part (callers that index beyond are Unsupported by
    construction of the cap) - exact for up to 2 parts, which is all the
    verified code distinguishes (`len(parts) <= 1`, parts[0], parts[1])."""
    sep = args[0]
    maxsplit = args[1] if len(args) > 1 else kw.get('maxsplit', -1)
    if is_symbolic(maxsplit):
        raise Unsupported('split with symbolic maxsplit')
    zs = z3.StringVal(sep)
    p = it.path
    if not it.truth(mk_bool(z3.Contains(e, zs))):
        return [mk_str(e)]
    a = _fresh_s(it, 'part')
    b = _fresh_s(it, 'part')
    if name == 'rsplit':
        # split at the LAST separator
        p.assume(mk_bool(z3.And(e == z3.Concat(a, zs, b),
                                z3.Not(z3.Contains(b, zs)))))
        if maxsplit == 1:
            return [SStr(a), SStr(b)]
        if not it.truth(mk_bool(z3.Contains(a, zs))):
            return [SStr(a), SStr(b)]
        c = _fresh_s(it, 'part')
        d = _fresh_s(it, 'part')
        p.assume(mk_bool(z3.And(a == z3.Concat(c, zs, d),
                                z3.Not(z3.Contains(d, zs)))))
        it.trusted.add('A-SPLIT: lists of 3 or more parts are represented '
                       'by their last two parts and an unconstrained head')
        return [SStr(c), SStr(d), SStr(b)]
    # split at the FIRST separator
    p.assume(mk_bool(z3.And(e == z3.Concat(a, zs, b),
                            z3.Not(z3.Contains(a, zs)))))
    if maxsplit == 1:
        return [SStr(a), SStr(b)]
    if not it.truth(mk_bool(z3.Contains(b, zs))):
        return [SStr(a), SStr(b)]
    c = _fresh_s(it, 'part')
    d = _fresh_s(it, 'part')
    p.assume(mk_bool(z3.And(b == z3.Concat(c, zs, d),
                            z3.Not(z3.Contains(c, zs)))))
    if maxsplit == 2:
        return [SStr(a), SStr(c), SStr(d)]
    it.trusted.add('A-SPLIT: lists of 3 or more parts are represented by '
                   'their first two parts and an unconstrained tail')
    return [SStr(a), SStr(c), SStr(d)]


def count_model(it, e, sub):
    """s.count(sub): 0 / 1 / 2-or-more decided by forking (2 stands for
    'at least two')."""
    zs = z3.StringVal(sub)
    if not it.truth(mk_bool(z3.Contains(e, zs))):
        return 0
    a = _fresh_s(it, 'part')
    b = _fresh_s(it, 'part')
    it.path.assume(mk_bool(z3.And(e == z3.Concat(a, zs, b),
                                  z3.Not(z3.Contains(a, zs)))))
    if not it.truth(mk_bool(z3.Contains(b, zs))):
        return 1
    it.trusted.add('A-COUNT: counts >= 2 are represented by 2')
    return 2


# --------------------------------------------------------------------------
# codecs (A-CODEC): encode / decode are uninterpreted, may raise
# UnicodeEncodeError / UnicodeDecodeError / LookupError, and
# decode(encode(t, e, p), e, q) == t.

_B = z3.DeclareSort('PyBytes')


def _bytes_term(it, b):
    """A z3 constant standing for the identity of a bytes value."""
    from .core import SBytes as _SB
    if isinstance(b, (bytes, bytearray)):
        return z3.Const('bytes_%s' % bytes(b).hex()[:64], _B)
    t = getattr(b, 'tag', None)
    if t and t[0] == 'base':
        return z3.Const('bytes_of_' + t[1], _B)
    if t and t[0] == 'enc':
        return ufun('py_encode', _S, _S, _S, _B)(*t[1])
    if t and t[0] == 'slice':
        # a window of another value: identified by (value, offset, length)
        root = _bytes_term(it, t[1])
        try:
            whole = it.path.implied(z3.And(t[2] == 0,
                                           b.zlen() == t[1].zlen()))
        except Exception:
            whole = False
        if whole:
            return root
        return ufun('py_bytes_window', _B, z3.IntSort(), z3.IntSort(), _B)(
            root, t[2], b.zlen())
    raise Unsupported('codec operation on a derived bytes value')


def _codec_args(args, kw, names, defaults):
    vals = list(args) + [None] * (len(names) - len(args))
    out = []
    for i, n in enumerate(names):
        v = kw.get(n, vals[i])
        if v is None:
            v = defaults[i]
        if not isinstance(v, (str, SStr)):
            raise Unsupported('codec argument %r' % (v,))
        out.append(zstr(v))
    return out


def _codec_known(enc):
    e = z3.simplify(enc)
    if z3.is_string_value(e):
        import codecs
        try:
            codecs.lookup(e.as_string())
            return True
        except LookupError:
            return False
    return mk_bool(ufun('py_codec_known', _S, z3.BoolSort())(enc))


def codec_decode(it, recv, args, kw):
    from .core import SBytes as _SB
    enc, err = _codec_args(args, kw, ('encoding', 'errors'),
                           ('utf-8', 'strict'))
    t = getattr(recv, 'tag', None)
    if t and t[0] == 'enc':
        s_e, e_e, _p = t[1]
        if it.truth(mk_bool(e_e == enc)):
            # A-CODEC round trip
            return mk_str(s_e)
    try:
        b = _bytes_term(it, recv)
    except Unsupported:
        e_enc = z3.simplify(enc)
        e_err = z3.simplify(err)
        if z3.is_string_value(e_enc) and e_enc.as_string() in (
                'ascii', 'us-ascii') and z3.is_string_value(e_err) \
                and e_err.as_string() == 'strict':
            return ascii_decode_exact(it, recv)
        raise
    if not it.truth(_codec_known(enc)):
        it.throw(LookupError, 'unknown encoding')
    ok = ufun('py_decode_ok', _B, _S, _S, z3.BoolSort())(b, enc, err)
    if not it.truth(mk_bool(ok)):
        it.throw(UnicodeDecodeError, 'codec', b'', 0, 1, 'invalid')
    it.trusted.add('A-CODEC')
    r = ufun('py_decode', _B, _S, _S, _S)(b, enc, err)
    e_enc = z3.simplify(enc)
    e_err = z3.simplify(err)
    if z3.is_string_value(e_enc) and e_enc.as_string() in (
            'ascii', 'us-ascii') and z3.is_string_value(e_err) \
            and e_err.as_string() == 'strict':
        # one character per byte, all of them ASCII.  Stated for short
        # values only: a length equation makes z3 build a witness string
        # of that length for every satisfiable query on the path.
        from . import ops
        n = ops.as_sbytes(recv).zlen()
        if it.path.implied(n <= 63):
            it.path.fact(z3.Length(r) == n)
            it.path.fact(ufun('py_isascii', _S, z3.BoolSort())(r))
    return mk_str(r)


def ascii_decode_exact(it, recv):
    """bytes.decode('ascii') of a derived (sliced / concatenated) value,
    modelled exactly: fails iff some byte is >= 128, otherwise the result
    has one character per byte with that code."""
    from . import ops
    b = ops.as_sbytes(recv)
    n = b.zlen()
    j = z3.Int('q!%d' % next(it.path.fresh))
    ok = z3.ForAll([j], z3.Implies(z3.And(j >= 0, j < n), b.at(j) < 128))
    if not it.truth(mk_bool(ok)):
        it.throw(UnicodeDecodeError, 'ascii', b'', 0, 1,
                 'ordinal not in range(128)')
    r = _fresh_s(it, 'ascii')
    k = z3.Int('q!%d' % next(it.path.fresh))
    it.path.fact(z3.Length(r) == n)
    it.path.fact(z3.ForAll([k], z3.Implies(
        z3.And(k >= 0, k < n),
        z3.StrToCode(z3.SubString(r, k, 1)) == b.at(k))))
    it.path.fact(ufun('py_isascii', _S, z3.BoolSort())(r))
    return mk_str(r)


def codec_encode(it, recv, args, kw):
    from .core import SBytes as _SB
    enc, err = _codec_args(args, kw, ('encoding', 'errors'),
                           ('utf-8', 'strict'))
    se = zstr(recv)
    if not it.truth(_codec_known(enc)):
        it.throw(LookupError, 'unknown encoding')
    ok = ufun('py_encode_ok', _S, _S, _S, z3.BoolSort())(se, enc, err)
    if not it.truth(mk_bool(ok)):
        it.throw(UnicodeEncodeError, 'codec', '', 0, 1, 'invalid')
    arr = ufun('py_encode_bytes', _S, _S, _S,
               z3.ArraySort(z3.IntSort(), z3.IntSort()))(se, enc, err)
    ln = ufun('py_encode_len', _S, _S, _S, z3.IntSort())(se, enc, err)
    it.path.fact(ln >= 0)
    it.trusted.add('A-CODEC')

    def at(i):
        return arr[i if not isinstance(i, int) else z3.IntVal(i)]
    return _SB(at, ln, tag=('enc', (se, enc, err)))


def bytes_method(it, recv, name, args, kw):
    if name == 'decode':
        return codec_decode(it, recv, args, kw)
    hook = getattr(it, 'bytes_method_hook', None)
    if hook is not None:
        r = hook(it, recv, name, args, kw)
        if r is not NotImplemented:
            return r
    if name in ('index', 'find') and len(args) == 1 and not kw and isinstance(
            args[0], bytes) and len(args[0]) == 1:
        # first occurrence of one byte value
        from . import ops
        b = ops.as_sbytes(recv)
        n = b.zlen()
        c = args[0][0]
        j = z3.Int('q!%d' % next(it.path.fresh))
        absent = z3.ForAll([j], z3.Implies(z3.And(j >= 0, j < n),
                                           b.at(j) != c))
        if it.truth(mk_bool(absent)):
            if name == 'find':
                return -1
            it.throw(ValueError, 'subsection not found')
        i = z3.Int('first!%d' % next(it.path.fresh))
        k = z3.Int('q!%d' % next(it.path.fresh))
        it.path.fact(z3.And(i >= 0, i < n, b.at(i) == c))
        it.path.fact(z3.ForAll([k], z3.Implies(z3.And(k >= 0, k < i),
                                               b.at(k) != c)))
        return mk_int(i)
    if name == 'partition' and len(args) == 1 and not kw and isinstance(
            args[0], bytes) and len(args[0]) == 1:
        # (head, sep, tail) around the first occurrence of one byte value
        from . import ops
        from .core import SInt
        b = ops.as_sbytes(recv)
        n = b.zlen()
        c = args[0][0]
        j = z3.Int('q!%d' % next(it.path.fresh))
        absent = z3.ForAll([j], z3.Implies(z3.And(j >= 0, j < n),
                                           b.at(j) != c))
        if it.truth(mk_bool(absent)):
            return (recv, b'', b'')
        i = z3.Int('first!%d' % next(it.path.fresh))
        k = z3.Int('q!%d' % next(it.path.fresh))
        it.path.fact(z3.And(i >= 0, i < n, b.at(i) == c))
        it.path.fact(z3.ForAll([k], z3.Implies(z3.And(k >= 0, k < i),
                                               b.at(k) != c)))
        return (ops.bytes_slice(it, recv, slice(0, SInt(i), None)), args[0],
                ops.bytes_slice(it, recv, slice(SInt(i + 1), None, None)))
    if name in ('rstrip', 'lstrip', 'strip') and len(args) == 1 and not kw \
            and isinstance(args[0], bytes) and len(args[0]) == 1:
        # strip one byte value from the end(s): the result is the window
        # [lo, hi) with nothing to strip at its ends and only that byte
        # outside it
        from . import ops
        b = ops.as_sbytes(recv)
        n = b.zlen()
        c = args[0][0]
        lo = z3.IntVal(0)
        hi = n
        if name in ('rstrip', 'strip'):
            hi = z3.Int('strip_hi!%d' % next(it.path.fresh))
            k = z3.Int('q!%d' % next(it.path.fresh))
            it.path.fact(z3.And(hi >= 0, hi <= n))
            it.path.fact(z3.Or(hi == 0, b.at(hi - 1) != c))
            it.path.fact(z3.ForAll([k], z3.Implies(
                z3.And(k >= hi, k < n), b.at(k) == c)))
        if name in ('lstrip', 'strip'):
            lo = z3.Int('strip_lo!%d' % next(it.path.fresh))
            k = z3.Int('q!%d' % next(it.path.fresh))
            it.path.fact(z3.And(lo >= 0, lo <= hi))
            it.path.fact(z3.Or(lo == hi, b.at(lo) != c))
            it.path.fact(z3.ForAll([k], z3.Implies(
                z3.And(k >= 0, k < lo), b.at(k) == c)))
        from .core import SInt
        return ops.bytes_slice(it, recv, slice(SInt(lo), SInt(hi), None))
    raise Unsupported('bytes.%s on symbolic bytes' % name)

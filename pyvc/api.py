"""Native (CPython) implementation of the proof-script API.

The contract scripts in /verif/contracts are ordinary Python.  In proof mode
they are interpreted by the pyvc engine (pyvc/api_sym.py implements this API
over symbolic values).  Here the same scripts run in CPython against the real
imported oslo_utils modules, with every `fresh_*` input taken from a concrete
assignment - a solver model (replay of a counterexample), a stored witness
(known finding) or a random sample (bounded tier).
"""
import fractions
import importlib
import logging
import random
import sys
import types

SYMBOLIC = False

PROOFS = {}          # (module, name) -> decl


class Infeasible(Exception):
    """The concrete inputs do not satisfy an `assume`."""


class MissingInput(Exception):
    pass


class Decl:
    def __init__(self, prop, name, fn, targets, assumes, note):
        self.prop = prop
        self.name = name
        self.fn = fn
        self.targets = targets
        self.assumes = assumes
        self.note = note


class Ctx:
    def __init__(self, inputs=None, rng=None, repo='/repo', sources=None):
        self.inputs = dict(inputs or {})
        self.rng = rng
        self.repo = repo
        self.sources = sources or {}
        self.checks = []
        self.counts = {}
        self.nfailed = {}
        self.first_fail = {}
        self.fail_details = {}
        self.covered = []
        self.undo = []
        self.drawn = {}
        self.log_records = []
        self.loaded = {}


_ctx = None


def _c():
    if _ctx is None:
        raise RuntimeError('pyvc.api used outside a replay/sample run')
    return _ctx


def proof(prop, targets=(), assumes=(), name=None, note='', native=True):
    def deco(fn):
        d = Decl(prop, name or fn.__name__, fn, list(targets), list(assumes),
                 note)
        d.kind = 'proof'
        d.native = native
        PROOFS[(fn.__module__, d.name)] = d
        return fn
    return deco


def bounded(prop, targets=(), assumes=(), name=None, note='', bound=''):
    """A bounded stand-in: runs natively only, enumerating its own input
    family and calling check() for every case.  Never counted as proved."""
    def deco(fn):
        d = Decl(prop, name or fn.__name__, fn, list(targets), list(assumes),
                 note)
        d.kind = 'bounded'
        d.bound = bound
        PROOFS[(fn.__module__, d.name)] = d
        return fn
    return deco


def rng():
    """The seeded random generator of a bounded run (VERIF_SEED)."""
    return _c().rng


def tier():
    import os
    return os.environ.get('VERIF_TIER_EFFECTIVE', 'quick')


def model(mod, name, value):
    """Symbolic-only replacement of a dependency by its assumed contract;
    natively the real dependency runs."""
    pass


# ---------------------------------------------------------------------------
# inputs


def _decode(v):
    if isinstance(v, dict):
        if 'real' in v:
            return fractions.Fraction(v['real'][0], v['real'][1])
        if 'bytes_hex' in v:
            return bytes.fromhex(v['bytes_hex'])
        if 'str' in v:
            return v['str']
        if 'bytes_len' in v:
            raise MissingInput('byte string too long to be listed')
    return v


_INT_POOL = [0, 1, 2, 3, 4, 5, 7, 8, 15, 16, 31, 32, 63, 64, 65, 127, 128,
             255, 256, 511, 512, 513, 1023, 1024, 1536, 2047, 2048, 4096,
             65535, 65536, 1 << 20, (1 << 32) - 1, 1 << 32, (1 << 63),
             (1 << 64) - 1]


def _draw_int(rng, lo, hi):
    if lo is not None and hi is not None:
        if hi < lo:
            raise Infeasible('empty range')
        if hi - lo <= 8:
            return rng.randint(lo, hi)
        r = rng.random()
        if r < 0.15:
            return lo
        if r < 0.3:
            return hi
        if r < 0.4:
            return lo + 1
        if r < 0.5:
            return hi - 1
        if r < 0.75:
            return min(hi, lo + rng.choice(_INT_POOL[:24]))
        return rng.randint(lo, hi)
    r = rng.random()
    if r < 0.55:
        v = rng.choice(_INT_POOL)
        if rng.random() < 0.3:
            v += rng.choice([-1, 1])
        if rng.random() < 0.15 and lo is None:
            v = -v
    elif r < 0.85:
        v = rng.randint(-4, 600)
    else:
        v = rng.randint(0, 1 << rng.choice([8, 16, 20, 32, 64]))
    if lo is not None and v < lo:
        v = lo + (abs(v) % 7)
    if hi is not None and v > hi:
        v = hi - (abs(v) % 7)
        if lo is not None and v < lo:
            v = lo
    return v


def fresh_int(name, lo=None, hi=None):
    c = _c()
    if name in c.inputs:
        v = _decode(c.inputs[name])
    elif c.rng is not None:
        v = _draw_int(c.rng, lo, hi)
        c.drawn[name] = v
    else:
        raise MissingInput(name)
    if (lo is not None and v < lo) or (hi is not None and v > hi):
        raise Infeasible(name)
    return v


def fresh_bits(name, width):
    c = _c()
    if name in c.inputs:
        return int(c.inputs[name])
    if c.rng is not None:
        r = c.rng.random()
        if r < 0.2:
            v = c.rng.choice([0, 1, (1 << width) - 1, 1 << (width - 1)])
        else:
            v = c.rng.getrandbits(width)
        c.drawn[name] = v
        return v
    raise MissingInput(name)


def fresh_bool(name):
    c = _c()
    if name in c.inputs:
        return bool(c.inputs[name])
    if c.rng is not None:
        v = c.rng.random() < 0.5
        c.drawn[name] = v
        return v
    raise MissingInput(name)


def fresh_real(name, lo=None):
    c = _c()
    if name in c.inputs:
        v = _decode(c.inputs[name])
    elif c.rng is not None:
        r = c.rng.random()
        if r < 0.3:
            v = fractions.Fraction(c.rng.choice([0, 1, 2, 5, 10, 100]))
        elif r < 0.6:
            v = fractions.Fraction(c.rng.randint(-50, 400), 4)
        else:
            v = fractions.Fraction(c.rng.randint(-10 ** 6, 10 ** 6),
                                   c.rng.choice([1, 3, 1000, 7919]))
        if lo is not None and v < lo:
            v = lo + abs(v)
        c.drawn[name] = {'real': [v.numerator, v.denominator]}
    else:
        raise MissingInput(name)
    if lo is not None and v < lo:
        raise Infeasible(name)
    return v


def fresh_bytes(name, min_len=None, max_len=None, length=None):
    c = _c()
    if name in c.inputs:
        v = _decode(c.inputs[name])
    elif c.rng is not None:
        rng = c.rng
        if length is not None:
            n = length
            if n > (1 << 21) or n < 0:
                raise Infeasible('sampled byte length out of budget')
        else:
            lo = min_len or 0
            hi = max_len if max_len is not None else lo + rng.choice(
                [0, 1, 2, 8, 64, 600, 3000])
            n = rng.randint(lo, max(lo, hi))
        mode = rng.random()
        if mode < 0.25:
            v = bytes(n)
        elif mode < 0.5:
            v = bytes(rng.choice([0, 1, 0x80, 0xff, 0x41]) for _ in range(n))
        else:
            v = bytes(rng.getrandbits(8) for _ in range(n))
        c.drawn[name] = {'bytes_hex': v.hex()}
    else:
        raise MissingInput(name)
    if length is not None and len(v) != length:
        raise Infeasible(name)
    if min_len is not None and len(v) < min_len:
        raise Infeasible(name)
    if max_len is not None and len(v) > max_len:
        raise Infeasible(name)
    return v


def fresh_str(name):
    c = _c()
    if name in c.inputs:
        return _decode(c.inputs[name])
    if c.rng is not None:
        n = c.rng.choice([0, 1, 2, 3, 5, 8])
        v = ''.join(c.rng.choice('ab1 /=.-_\n:"') for _ in range(n))
        c.drawn[name] = {'str': v}
        return v
    raise MissingInput(name)


def pick(name, options):
    c = _c()
    options = list(options)
    if name in c.inputs:
        return options[c.inputs[name]]
    if c.rng is not None:
        i = c.rng.randrange(len(options))
        c.drawn[name] = i
        return options[i]
    raise MissingInput(name)


def symtuple(name, items=(), filler=None):
    n = fresh_int(name + '.nrest', 0, None)
    if _c().rng is not None and n > 6:
        n = n % 7
        _c().drawn[name + '.nrest'] = n
    return tuple([filler] * n) + tuple(items)


# ---------------------------------------------------------------------------
# verdicts


def assume(*conds):
    for x in conds:
        if not x:
            raise Infeasible('assume')


def check(name, cond, props=None, detail=None):
    if props:
        name = name + '@' + props.replace(' ', ',')
    c = _c()
    ok = bool(cond)
    c.counts[name] = c.counts.get(name, 0) + 1
    if not ok:
        c.nfailed[name] = c.nfailed.get(name, 0) + 1
        if name not in c.first_fail:
            c.first_fail[name] = None if detail is None else str(detail)[:400]
        lst = c.fail_details.setdefault(name, [])
        if len(lst) < 50:
            lst.append(None if detail is None else str(detail)[:400])
    if len(c.checks) < 5000:
        c.checks.append((name, ok))


def cover(name):
    _c().covered.append(name)


def unreachable(name):
    check(name, False)


def regex_hook(names, fn):
    """symbolic runs only"""
    raise RuntimeError('regex_hook is only available in symbolic runs')


def unmodelled(what=''):
    """A model of a contract script was asked something it does not cover
    (only meaningful in the symbolic run: proofs using models are
    native=False)."""
    raise RuntimeError('model gap: %s' % what)


def trust(tag):
    pass


# ---------------------------------------------------------------------------
# program under verification


def load(relpath):
    c = _c()
    name = relpath[:-3] if relpath.endswith('.py') else relpath
    if name.endswith('/__init__'):
        name = name[:-9]
    name = name.replace('/', '.')
    if name in c.loaded:
        return c.loaded[name]
    import os
    full = os.path.join(c.repo, relpath)
    if full in c.sources:
        # canary: execute the mutated source as a fresh module object
        m = types.ModuleType(name)
        m.__file__ = full
        m.__package__ = name.rpartition('.')[0]
        old = sys.modules.get(name)
        sys.modules[name] = m
        try:
            exec(compile(c.sources[full], full, 'exec'), m.__dict__)
        finally:
            if old is not None:
                sys.modules[name] = old
            else:
                del sys.modules[name]
    else:
        m = importlib.import_module(name)
    c.loaded[name] = m
    return m


def blank(cls, **attrs):
    o = cls.__new__(cls)
    for k, v in attrs.items():
        setattr(o, k, v)
    return o


def patch(mod, name, val):
    c = _c()
    c.undo.append((mod, name, getattr(mod, name, _MISSING)))
    setattr(mod, name, val)


_MISSING = object()


def stub(mod, qual, fn):
    pass


def unstub(mod, qual):
    pass


def invariant(mod, qual, ordinal, fn, **kw):
    pass


# ---------------------------------------------------------------------------
# specification helpers


_PRIM = (int, float, str, bytes, bool, type(None), fractions.Fraction)


def same(a, b):
    if isinstance(a, _PRIM) and isinstance(b, _PRIM):
        if isinstance(a, bool) != isinstance(b, bool):
            return False
        if a is None or b is None:
            return a is b
        return a == b
    if isinstance(a, dict) and isinstance(b, dict):
        return set(a) == set(b) and all(same(a[k], b[k]) for k in a)
    if isinstance(a, (list, tuple)) and isinstance(b, (list, tuple)):
        return (type(a) is type(b) and len(a) == len(b)
                and all(same(x, y) for x, y in zip(a, b)))
    return a is b


def state_of(o):
    if hasattr(o, '__dict__'):
        return dict(vars(o))
    return {s: getattr(o, s) for s in getattr(type(o), '__slots__', ())
            if hasattr(o, s)}


def is_symbolic_run():
    return False


def implies(p, q):
    return (not p) or bool(q)


def ite(c, x, y):
    return x if c else y


def neg(x):
    return not x


def conj(*xs):
    if len(xs) == 1 and isinstance(xs[0], (list, tuple)):
        xs = xs[0]
    return all(xs)


def disj(*xs):
    if len(xs) == 1 and isinstance(xs[0], (list, tuple)):
        xs = xs[0]
    return any(xs)


def forall_int(lo, hi, fn):
    return all(fn(i) for i in range(lo, hi))


def be(b, off, k):
    return int.from_bytes(bytes(b[off:off + k]).ljust(k, b'\0'), 'big')


def le(b, off, k):
    return int.from_bytes(bytes(b[off:off + k]).ljust(k, b'\0'), 'little')


def re_lang(pattern, flags=0, mode='full'):
    from . import regex
    if not isinstance(pattern, str):
        flags = flags or pattern.flags & ~32     # drop the implicit UNICODE
        pattern = pattern.pattern
    return regex.Lang(pattern, int(flags), mode)


def in_lang(s, lang):
    return lang.contains(s)


def parses_as_float(s):
    try:
        float(s)
        return True
    except ValueError:
        return False


def parses_as_int(s):
    try:
        int(s)
        return True
    except ValueError:
        return False


def float_of(s):
    return float(s)


def int_of(s):
    return int(s)


def strlen(s):
    return len(s)


def byte_at(b, i):
    return b[i] if 0 <= i < len(b) else 0


def log_count(level=None):
    recs = _c().log_records
    if level is None:
        return len(recs)
    lv = {'debug': 10, 'info': 20, 'warning': 30, 'warn': 30, 'error': 40,
          'exception': 40, 'critical': 50}[level]
    return len([r for r in recs if r.levelno == lv])


def exc_type_name(e):
    return type(e).__name__


# ---------------------------------------------------------------------------
# running a proof natively


class _Capture(logging.Handler):
    def __init__(self, sink):
        super().__init__(level=0)
        self.sink = sink

    def emit(self, record):
        self.sink.append(record)


def run_native(modname, proofname, inputs=None, rng=None, repo='/repo',
               sources=None):
    """Execute one proof script in CPython.  Returns dict with `checks`
    (name, ok), `failed`, `infeasible`, `exception`, `drawn`."""
    global _ctx
    if repo not in sys.path:
        sys.path.insert(0, repo)
    import os
    verif = os.path.dirname(os.path.dirname(os.path.abspath(__file__)))
    if verif not in sys.path:
        sys.path.insert(0, verif)
    mod = importlib.import_module(modname)
    decl = PROOFS[(modname, proofname)]
    ctx = Ctx(inputs, rng, repo, sources)
    _ctx = ctx
    root = logging.getLogger()
    h = _Capture(ctx.log_records)
    root.addHandler(h)
    oldlevel = root.level
    root.setLevel(1)
    olddis = logging.root.manager.disable
    logging.disable(logging.NOTSET)
    out = {'infeasible': False, 'exception': None, 'missing': None}
    try:
        decl.fn()
    except Infeasible:
        out['infeasible'] = True
    except MissingInput as e:
        out['missing'] = str(e)
    except BaseException as e:        # noqa
        import traceback
        out['exception'] = {'type': type(e).__name__, 'args':
                            [str(a)[:200] for a in e.args],
                            'traceback': traceback.format_exc()[-1500:]}
    finally:
        for m, n, v in reversed(ctx.undo):
            if v is _MISSING:
                delattr(m, n)
            else:
                setattr(m, n, v)
        root.removeHandler(h)
        root.setLevel(oldlevel)
        logging.disable(olddis)
        _ctx = None
    out['checks'] = ctx.checks
    out['counts'] = ctx.counts
    out['nfailed'] = ctx.nfailed
    out['first_fail'] = ctx.first_fail
    out['fail_details'] = ctx.fail_details
    out['kind'] = getattr(decl, 'kind', 'proof')
    out['bound'] = getattr(decl, 'bound', '')
    out['failed'] = sorted(ctx.nfailed)
    out['drawn'] = ctx.drawn
    return out

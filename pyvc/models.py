"""pyvc models: builtins, the stdlib modules the verified code uses, methods of
built-in types on symbolic receivers.  Each model is exact for the subset it
accepts and raises Unsupported outside it."""
import ast
import struct as _struct

import z3

from .core import (Unsupported, PyRaise, PathEnd, SInt, SReal, SBool, SBytes,
                   SStr, Opaque, Obj, PySet, mk_int, mk_bool, mk_real, zint,
                   zreal, zbool, is_symbolic)
from . import ops
from .ops import MISSING, OpaqueStr, SymRange, SymTuple, LazyGen, HostIter


def _interp_types():
    from . import interp as I
    return I


# --------------------------------------------------------------------------
# installation


def install(it):
    I = _interp_types()
    B = it.builtins

    def builtin(name):
        def deco(fn):
            B[name] = I.Builtin(name, fn)
            return fn
        return deco

    for t in (int, str, bytes, bool, float, list, tuple, dict, set, object,
              type, frozenset, bytearray):
        B[t.__name__] = I.BuiltinType(t)
    B['None'] = None
    B['True'] = True
    B['False'] = False
    B['NotImplemented'] = NotImplemented
    import builtins as _b
    for nm in dir(_b):
        x = getattr(_b, nm)
        if isinstance(x, type) and issubclass(x, BaseException):
            B[nm] = it.exc_class(x)

    @builtin('len')
    def _len(it, a, kw):
        return py_len(it, a[0])

    @builtin('isinstance')
    def _isinstance(it, a, kw):
        return py_isinstance(it, a[0], a[1])

    @builtin('issubclass')
    def _issubclass(it, a, kw):
        return it.is_subclass(a[0], a[1])

    # hasattr / getattr-with-default ASK whether an attribute is there: while
    # they probe, a missing attribute is a plain AttributeError again (not a
    # model gap), also on the models and ducks of contract scripts
    @builtin('hasattr')
    def _hasattr(it, a, kw):
        it.probing = getattr(it, 'probing', 0) + 1
        try:
            it.getattr(a[0], a[1])
            return True
        except PyRaise as e:
            if any(c.host is AttributeError for c in e.exc.cls.mro):
                return False
            raise
        finally:
            it.probing -= 1

    @builtin('getattr')
    def _getattr(it, a, kw):
        if len(a) == 3:
            it.probing = getattr(it, 'probing', 0) + 1
            try:
                return it.getattr(a[0], a[1])
            except PyRaise as e:
                if any(c.host is AttributeError for c in e.exc.cls.mro):
                    return a[2]
                raise
            finally:
                it.probing -= 1
        return it.getattr(a[0], a[1])

    @builtin('setattr')
    def _setattr(it, a, kw):
        it.setattr(a[0], a[1], a[2])

    @builtin('callable')
    def _callable(it, a, kw):
        v = a[0]
        if isinstance(v, (I.FuncVal, I.BoundMethod, I.Builtin, I.ClassVal,
                          I.BuiltinType, I.HostMethod)):
            return True
        if isinstance(v, Obj):
            return v.cls.lookup('__call__')[0] is not None
        return False

    @builtin('id')
    def _id(it, a, kw):
        if isinstance(a[0], Obj):
            return a[0].oid
        raise Unsupported('id() of non-object')

    @builtin('min')
    def _min(it, a, kw):
        return minmax(it, a, kw, False)

    @builtin('max')
    def _max(it, a, kw):
        return minmax(it, a, kw, True)

    @builtin('abs')
    def _abs(it, a, kw):
        v = a[0]
        if isinstance(v, (int, float)):
            return abs(v)
        if isinstance(v, SInt):
            return mk_int(z3.If(v.e < 0, -v.e, v.e))
        if isinstance(v, SReal):
            return mk_real(z3.If(v.e < 0, -v.e, v.e))
        raise Unsupported('abs')

    def _char_predicate_over_symbolic_str(it, gen, which):
        """all()/any() of a generator expression `P(c) for c in s` where s is
        a symbolic str and P only looks at the character (methods of c,
        constants, boolean operators): a deterministic function of s, given
        as an uninterpreted boolean of s (one function per predicate text).
        Returns None when the argument is not of that shape."""
        import ast as _ast
        if not isinstance(gen, ops.LazyGen):
            return None
        node = gen.node
        if len(node.generators) != 1:
            return None
        g = node.generators[0]
        if g.ifs or g.is_async or not isinstance(g.target, _ast.Name):
            return None
        var = g.target.id
        for nd in _ast.walk(node.elt):
            if isinstance(nd, _ast.Name) and nd.id != var:
                return None
            if isinstance(nd, (_ast.Lambda, _ast.Await, _ast.Yield,
                               _ast.YieldFrom, _ast.NamedExpr)):
                return None
            if isinstance(nd, _ast.Call) and not (
                    isinstance(nd.func, _ast.Attribute)
                    and isinstance(nd.func.value, _ast.Name)
                    and nd.func.value.id == var):
                return None
        src = it.eval(g.iter, gen.fr)
        if not isinstance(src, SStr):
            return None
        from . import strings
        import hashlib as _h
        key = _h.sha1((which + ':' + _ast.dump(node.elt)).encode()
                      ).hexdigest()[:12]
        fn = strings.ufun('py_%s_chars_%s' % (which, key),
                          z3.StringSort(), z3.BoolSort())
        it.trusted.add('all()/any() of a per-character predicate over a '
                       'symbolic string: uninterpreted function of the '
                       'string')
        return mk_bool(fn(src.e))

    @builtin('all')
    def _all(it, a, kw):
        r = _char_predicate_over_symbolic_str(it, a[0], 'all')
        if r is not None:
            return r
        for x in it.iterate(a[0], lazy=True):
            if not it.truth(x):
                return False
        return True

    @builtin('any')
    def _any(it, a, kw):
        r = _char_predicate_over_symbolic_str(it, a[0], 'any')
        if r is not None:
            return r
        for x in it.iterate(a[0], lazy=True):
            if it.truth(x):
                return True
        return False

    @builtin('sum')
    def _sum(it, a, kw):
        r = a[1] if len(a) > 1 else 0
        for x in it.iterate(a[0]):
            r = it.binop(ast.Add, r, x)
        return r

    @builtin('range')
    def _range(it, a, kw):
        if any(isinstance(x, SInt) for x in a):
            if len(a) == 1:
                return SymRange(0, a[0])
            if len(a) == 2:
                return SymRange(a[0], a[1])
            raise Unsupported('symbolic range with step')
        return it.host_call(range, *a)

    @builtin('enumerate')
    def _enumerate(it, a, kw):
        start = a[1] if len(a) > 1 else kw.get('start', 0)
        return [(start + i, x) for i, x in enumerate(it.iterate(a[0]))]

    @builtin('reversed')
    def _reversed(it, a, kw):
        return list(reversed(it.iterate(a[0])))

    @builtin('zip')
    def _zip(it, a, kw):
        return [tuple(t) for t in zip(*[it.iterate(x) for x in a])]

    @builtin('map')
    def _map(it, a, kw):
        f = a[0]
        cols = [it.iterate(x) for x in a[1:]]
        return [it.call(f, list(t), {}) for t in zip(*cols)]

    @builtin('filter')
    def _filter(it, a, kw):
        f = a[0]
        out = []
        for x in it.iterate(a[1]):
            if it.truth(x if f is None else it.call(f, [x], {})):
                out.append(x)
        return out

    @builtin('sorted')
    def _sorted(it, a, kw):
        items = it.iterate(a[0])
        if any(is_symbolic(x) for x in items) or kw:
            if kw.get('key') is None and not any(is_symbolic(x)
                                                 for x in items):
                return it.host_call(sorted, items,
                                    reverse=kw.get('reverse', False))
            raise Unsupported('sorted with key / symbolic items')
        return it.host_call(sorted, items)

    @builtin('iter')
    def _iter(it, a, kw):
        if len(a) == 2:
            return SentinelIter(a[0], a[1])
        if isinstance(a[0], I.GeneratorVal):
            return a[0]
        return HostIter(it.iterate(a[0]))

    @builtin('next')
    def _next(it, a, kw):
        v = a[0]
        if isinstance(v, HostIter):
            if v.pos < len(v.items):
                v.pos += 1
                return v.items[v.pos - 1]
            if len(a) > 1:
                return a[1]
            it.throw(StopIteration)
        if isinstance(v, Obj):
            return it.call(it.getattr(v, '__next__'), [], {})
        if isinstance(v, I.GeneratorVal):
            from . import gen
            if len(a) > 1:
                try:
                    return gen.runner_of(it, v).next()
                except PyRaise as e:
                    if any(c.host is StopIteration for c in e.exc.cls.mro):
                        return a[1]
                    raise
            return gen.runner_of(it, v).next()
        if isinstance(v, ops.LazyGen):
            # next(<generator expression>[, default]): demand driven
            st = getattr(v, '_next_state', None)
            if st is None:
                st = v.lazy_items()
                v._next_state = st
            try:
                return next(st)
            except StopIteration:
                if len(a) > 1:
                    return a[1]
                it.throw(StopIteration)
        raise Unsupported('next() on %r' % (v,))

    @builtin('repr')
    def _repr(it, a, kw):
        v = a[0]
        if is_symbolic(v) or isinstance(v, (Obj, Opaque, OpaqueStr)):
            return OpaqueStr('repr', (v,))
        return repr(v)

    @builtin('bin')
    def _bin(it, a, kw):
        if is_symbolic(a[0]):
            return OpaqueStr('bin', (a[0],))
        return it.host_call(bin, a[0])

    @builtin('hex')
    def _hex(it, a, kw):
        if is_symbolic(a[0]):
            return OpaqueStr('hex', (a[0],))
        return it.host_call(hex, a[0])

    @builtin('ord')
    def _ord(it, a, kw):
        return it.host_call(ord, a[0])

    @builtin('chr')
    def _chr(it, a, kw):
        return it.host_call(chr, a[0])

    @builtin('print')
    def _print(it, a, kw):
        return None

    @builtin('divmod')
    def _divmod(it, a, kw):
        return (it.binop(ast.FloorDiv, a[0], a[1]),
                it.binop(ast.Mod, a[0], a[1]))

    @builtin('format')
    def _format(it, a, kw):
        if not any(is_symbolic(x) for x in a):
            return it.host_call(format, *a)
        return OpaqueStr('format', tuple(a))

    @builtin('pow')
    def _pow(it, a, kw):
        if len(a) == 2:
            return it.binop(ast.Pow, a[0], a[1])
        if not any(is_symbolic(x) for x in a):
            return it.host_call(pow, *a)
        raise Unsupported('3-argument pow of symbolic')

    @builtin('round')
    def _round(it, a, kw):
        if not any(is_symbolic(x) for x in a):
            return it.host_call(round, *a)
        x = a[0]
        n = a[1] if len(a) > 1 else kw.get('ndigits')
        if isinstance(x, SInt) and (n is None or (isinstance(n, int)
                                                  and n >= 0)):
            return x
        if isinstance(x, SReal) and (n is None or isinstance(n, int)):
            # round-half-to-even on the real value (A-FLOAT)
            k = 0 if n is None else n
            scale = z3.RealVal(10) ** k if k >= 0 else None
            if scale is None:
                raise Unsupported('round to negative digits')
            y = x.e * (10 ** k)
            f = z3.ToInt(y)
            d = y - z3.ToReal(f)
            half = z3.RealVal(1) / 2
            r = z3.If(d < half, f, z3.If(d > half, f + 1,
                                         z3.If(f % 2 == 0, f, f + 1)))
            if n is None:
                return mk_int(r)
            return mk_real(z3.ToReal(r) / (10 ** k))
        raise Unsupported('round of symbolic')

    @builtin('property')
    def _property(it, a, kw):
        return I.PropertyVal(a[0] if a else kw.get('fget'))

    @builtin('staticmethod')
    def _staticmethod(it, a, kw):
        return I.StaticMethodVal(a[0])

    @builtin('classmethod')
    def _classmethod(it, a, kw):
        return I.ClassMethodVal(a[0])

    @builtin('super')
    def _super(it, a, kw):
        if len(a) == 2:
            return I.SuperVal(a[0], a[1])
        raise Unsupported('super() form')

    @builtin('vars')
    def _vars(it, a, kw):
        if isinstance(a[0], Obj):
            return a[0].attrs
        raise Unsupported('vars')

    @builtin('open')
    def _open(it, a, kw):
        raise Unsupported('open() (no file model installed)')

    from . import stdlib
    stdlib.install(it)
    from . import api_sym
    api_sym.install(it)
    from . import gen  # noqa: F401  (installs Interp.ex_Yield)


class SentinelIter:
    """iter(callable, sentinel)"""

    def __init__(self, fn, sentinel):
        self.fn = fn
        self.sentinel = sentinel


# --------------------------------------------------------------------------


def py_len(it, v):
    if isinstance(v, SBytes):
        return v.length if isinstance(v.length, int) else mk_int(v.length)
    if isinstance(v, (bytes, str, list, tuple, dict, PySet, range,
                      bytearray)):
        return len(v)
    if isinstance(v, SStr):
        return mk_int(z3.Length(v.e))
    if isinstance(v, SymTuple):
        return v.length()
    if isinstance(v, Obj):
        m, _ = v.cls.lookup('__len__')
        if m is not None:
            return it.call(m, [v], {})
    if isinstance(v, LazyGen):
        it.throw(TypeError, "object of type 'generator' has no len()")
    if v is None or isinstance(v, (int, SInt, float, SReal, SBool)):
        it.throw(TypeError, "object of type %s has no len()" % ops._tn(v))
    if isinstance(v, OpaqueStr):
        raise Unsupported('len of opaque string')
    raise Unsupported('len(%r)' % (v,))


def host_type_of(v):
    """Python type (host class) of a value, or None for interpreted objects."""
    if isinstance(v, SBool):
        return bool
    if isinstance(v, SInt):
        return int
    if isinstance(v, SReal):
        return float
    if isinstance(v, SBytes):
        return bytes
    if isinstance(v, (SStr, OpaqueStr)):
        return str
    if isinstance(v, PySet):
        return set
    if isinstance(v, SymTuple):
        return tuple
    if isinstance(v, (bool, int, float, str, bytes, list, tuple, dict,
                      type(None), bytearray, range)):
        return type(v)
    return None


def py_isinstance(it, v, spec):
    I = _interp_types()
    if isinstance(spec, tuple):
        return any(py_isinstance(it, v, s) for s in spec)
    if isinstance(spec, I.BuiltinType):
        if spec.host is object:
            return True
        t = host_type_of(v)
        if t is None:
            return False
        return issubclass(t, spec.host)
    if isinstance(spec, I.ClassVal):
        if isinstance(v, Obj):
            return spec in v.cls.mro
        hook = getattr(spec, 'instancecheck', None)
        if hook is not None:
            return hook(it, v)
        return False
    if isinstance(spec, Opaque):
        raise Unsupported('isinstance against unmodelled %s' % spec.what)
    raise Unsupported('isinstance against %r' % (spec,))


def minmax(it, a, kw, is_max):
    if kw:
        raise Unsupported('min/max with key/default')
    items = it.iterate(a[0]) if len(a) == 1 else list(a)
    if not items:
        it.throw(ValueError, 'min()/max() arg is an empty sequence')
    if not any(is_symbolic(x) for x in items):
        return it.host_call(max if is_max else min, items)
    best = items[0]
    for x in items[1:]:
        # Python: max keeps the first maximal element, min the first minimal
        c = ops.order(it, ast.Gt if is_max else ast.Lt, x, best)
        if isinstance(c, bool):
            best = x if c else best
        elif ops.is_num(x) and ops.is_num(best):
            if ops.is_real(x) or ops.is_real(best):
                best = mk_real(z3.If(c.e, zreal(x), zreal(best)))
            else:
                best = mk_int(z3.If(c.e, zint(x), zint(best)))
        else:
            best = x if it.truth(c) else best
    return best


def to_host_str(it, v):
    if isinstance(v, (str, int, float, bytes, type(None), bool, tuple, list,
                      dict)):
        return v
    I = _interp_types()
    if isinstance(v, I.BuiltinType):
        # str(int) == "<class 'int'>": format the host type itself
        return v.host
    raise Unsupported('formatting of %r' % (v,))


# --------------------------------------------------------------------------
# type calls: int(x), str(x), dict(...), ...


def call_type(it, t, args, kw):
    h = t.host
    I = _interp_types()
    if h is int:
        if not args:
            return 0
        v = args[0]
        if len(args) == 1 and not kw:
            if isinstance(v, (SInt,)):
                return v
            if isinstance(v, SBool):
                return mk_int(zint(v))
            if isinstance(v, bool):
                return int(v)
            if isinstance(v, SReal):
                # truncation toward zero
                f = z3.ToInt(v.e)
                return mk_int(z3.If(z3.Or(v.e >= 0, z3.ToReal(f) == v.e),
                                    f, f + 1))
            if isinstance(v, (SStr, OpaqueStr)):
                from . import strings
                return strings.str_to_int(it, v)
            if isinstance(v, Obj):
                m, _ = v.cls.lookup('__int__')
                if m is not None:
                    return it.call(m, [v], {})
                it.throw(TypeError, "int() argument must be a string, a "
                         "bytes-like object or a real number")
            if v is None or isinstance(v, (list, tuple, dict, PySet)):
                it.throw(TypeError, "int() argument must be a string, a "
                         "bytes-like object or a real number, not %s"
                         % ops._tn(v))
        if all(not is_symbolic(x) for x in args):
            return it.host_call(int, *args, **kw)
        raise Unsupported('int(%r)' % (args,))
    if h is bool:
        if not args:
            return False
        t_ = ops.truthy(it, args[0])
        return t_
    if h is float:
        if not args:
            return 0.0
        v = args[0]
        if isinstance(v, (SInt, SBool)):
            return mk_real(z3.ToReal(zint(v)))
        if isinstance(v, SReal):
            return v
        if isinstance(v, (SStr, OpaqueStr)):
            from . import strings
            return strings.str_to_float(it, v)
        if not is_symbolic(v) and not isinstance(v, Obj):
            return it.host_call(float, v)
        raise Unsupported('float(%r)' % (v,))
    if h is str:
        if not args:
            return ''
        v = args[0]
        if len(args) == 1:
            if isinstance(v, (str, SStr, OpaqueStr)):
                return v
            if isinstance(v, Obj):
                m, owner = v.cls.lookup('__str__')
                if m is not None:
                    return it.call(m, [v], {})
                if it.is_exception(v):
                    a = v.attrs.get('args', ())
                    if len(a) == 1:
                        return call_type(it, t, [a[0]], {})
                    if not a:
                        return ''
                    return OpaqueStr('str(exc)', a)
                return OpaqueStr('str(obj)', (v,))
            if isinstance(v, (SInt, SReal, SBool, SBytes)):
                from . import strings
                return strings.str_of(it, v)
            if isinstance(v, (int, float, bytes, type(None), bool)):
                return str(v)
            if isinstance(v, (tuple, list, dict)) and ops._plain(v):
                return str(v)
            if isinstance(v, (I.ClassVal, I.FuncVal, I.BuiltinType)):
                return OpaqueStr('str(type)', (v,))
            return OpaqueStr('str', (v,))
        if all(not is_symbolic(x) for x in args):
            return it.host_call(str, *args, **kw)
        raise Unsupported('str(...) with encoding on symbolic')
    if h is bytes:
        if not args:
            return b''
        if all(not is_symbolic(x) for x in args) and ops._plain(args[0]):
            return it.host_call(bytes, *args, **kw)
        if isinstance(args[0], SBytes):
            return args[0]
        raise Unsupported('bytes(%r)' % (args,))
    if h is list:
        return list(it.iterate(args[0])) if args else []
    if h is tuple:
        if args and isinstance(args[0], SymTuple):
            return args[0]
        return tuple(it.iterate(args[0])) if args else ()
    if h in (set, frozenset):
        return PySet(it.iterate(args[0])) if args else PySet()
    if h is dict:
        d = {}
        if args:
            src = args[0]
            if isinstance(src, dict):
                for k, v in list(src.items()):
                    ops.setitem(it, d, k, v)
            else:
                for kv in it.iterate(src):
                    k, v = it.iterate(kv)
                    ops.setitem(it, d, k, v)
        d.update(kw)
        return d
    if h is object:
        return Opaque('object()')
    if h is type:
        if len(args) == 1:
            return type_of(it, args[0])
        raise Unsupported('type(name, bases, dict)')
    raise Unsupported('call of type %s' % t.name)


def type_of(it, v):
    I = _interp_types()
    if isinstance(v, Obj):
        return v.cls
    t = host_type_of(v)
    if t is not None:
        return I.BuiltinType(t)
    raise Unsupported('type() of %r' % (v,))


# --------------------------------------------------------------------------
# attribute access on non-Obj values


def int_from_bytes(it, a, kw):
    """int.from_bytes(buf, byteorder='big', *, signed=False)"""
    buf = a[0]
    order = a[1] if len(a) > 1 else kw.get('byteorder', 'big')
    signed = kw.get('signed', False)
    if isinstance(buf, (bytes, bytearray)) and not is_symbolic(order):
        return it.host_call(int.from_bytes, bytes(buf), order, signed=signed)
    if not isinstance(buf, SBytes) or order not in ('little', 'big') or \
            is_symbolic(signed):
        raise Unsupported('int.from_bytes(%r, %r)' % (buf, order))
    n = buf.length
    if not isinstance(n, int):
        # a window whose length the path condition pins to a constant
        for k in range(0, 17):
            if it.path.implied(buf.zlen() == k):
                n = k
                break
        else:
            raise Unsupported('int.from_bytes of a buffer of symbolic length')
    if n == 0:
        return 0
    terms = []
    for i in range(n):
        w = i if order == 'little' else n - 1 - i
        terms.append(buf.at(i) * (1 << (8 * w)))
    v = z3.Sum(terms) if len(terms) > 1 else terms[0]
    if signed:
        v = z3.If(v >= (1 << (8 * n - 1)), v - (1 << (8 * n)), v)
    return mk_int(v)


def getattr_value(it, o, name):
    I = _interp_types()
    if isinstance(o, (SBytes, bytes, bytearray, str, SStr, OpaqueStr, list,
                      dict, tuple, PySet, int, float, SInt, SReal, SBool,
                      SymTuple)):
        if name == '__class__':
            return type_of(it, o)
        t = host_type_of(o)
        if t is not None and not hasattr(t, name):
            it.throw(AttributeError, "'%s' object has no attribute '%s'"
                     % (t.__name__, name))
        return I.HostMethod(o, name)
    if o is None:
        it.throw(AttributeError, "'NoneType' object has no attribute '%s'"
                 % name)
    if isinstance(o, I.BuiltinType):
        if name == '__name__':
            return o.name
        if o.host is int and name == 'from_bytes':
            return I.Builtin('int.from_bytes', int_from_bytes)
        if hasattr(o.host, name):
            import inspect as _inspect
            raw = _inspect.getattr_static(o.host, name)
            if isinstance(raw, (staticmethod, classmethod)) or type(
                    raw).__name__ in ('builtin_function_or_method',
                                      'classmethod_descriptor'):
                # str.maketrans, bytes.fromhex, dict.fromkeys, ...: called on
                # the type, no instance in front of the arguments
                def call_on_type(it_, a, kw, _n=name, _h=o.host):
                    if _has_sym(a) or _has_sym(list(kw.values())):
                        raise Unsupported('%s.%s on symbolic arguments'
                                          % (_h.__name__, _n))
                    return it_.host_call(getattr(_h, _n), *a, **kw)
                return I.Builtin('%s.%s' % (o.name, name), call_on_type)
            return I.Builtin('%s.%s' % (o.name, name),
                             lambda it_, a, kw, _n=name:
                             call_host_method(it_, I.HostMethod(a[0], _n),
                                              a[1:], kw))
    if isinstance(o, (I.Builtin,)):
        if name == '__name__':
            return o.name
    if isinstance(o, HostIter) and name == '__next__':
        return I.Builtin('next', lambda it_, a, kw: it.call(
            it.builtins['next'], [o], {}))
    if isinstance(o, HostNamespace):
        return o.get(it, name)
    from .stdlib import PatternVal, HostValue, pattern_method, wrap_host
    if isinstance(o, PatternVal):
        if name == 'pattern':
            return o.pattern
        if name == 'flags':
            import re as _re
            return o.flags | int(_re.UNICODE)
        return I.Builtin('Pattern.' + name, lambda it_, a, kw:
                         pattern_method(it_, o, name, a, kw))
    if isinstance(o, HostValue):
        attr = it.host_call(getattr, o.obj, name)
        if callable(attr):
            def call(it_, a, kw):
                if _has_sym(a):
                    raise Unsupported('host method %s with symbolic '
                                      'arguments' % name)
                return wrap_host(it_.host_call(attr, *a, **kw))
            return I.Builtin('host.' + name, call)
        return wrap_host(attr)
    raise Unsupported('attribute %s of %r' % (name, o))


class HostNamespace:
    """A record of named values exposed to the program (e.g. model objects)."""

    def __init__(self, name, d):
        self.name = name
        self.d = d

    def get(self, it, name):
        if name in self.d:
            return self.d[name]
        if self.name != 'locals':
            # a partial model of a real object (sys.stdin, ...)
            raise Unsupported('%s.%s is not modelled' % (self.name, name))
        it.throw(AttributeError, "'%s' has no attribute '%s'"
                 % (self.name, name))


def obj_default_attr(it, o, name):
    """Attributes every object has."""
    if it.is_exception(o):
        if name == 'args':
            return o.attrs.get('args', ())
        if name in ('__traceback__', '__cause__', '__context__'):
            return o.attrs.get(name)
        if name == '__suppress_context__':
            return o.attrs.get(name, False)
        if name in ('errno', 'strerror', 'filename') and any(
                c.host is OSError for c in o.cls.mro):
            a = o.attrs.get('args', ())
            if len(a) >= 2:
                return {'errno': a[0], 'strerror': a[1],
                        'filename': a[2] if len(a) > 2 else None}[name]
            return None
        if name == 'with_traceback':
            I = _interp_types()

            def wt(it_, a, kw):
                o.attrs['__traceback__'] = a[0]
                return o
            return I.Builtin('with_traceback', wt)
    return MISSING


def super_default_attr(it, sup, name):
    I = _interp_types()
    if name == '__init__':
        selfv = sup.selfv

        def init(it_, a, kw):
            if isinstance(selfv, Obj) and it.is_exception(selfv):
                selfv.attrs['args'] = tuple(a)
            return None
        return I.Builtin('object.__init__', init)
    if name in ('setUp', 'tearDown', '_setUp', 'cleanUp'):
        return I.Builtin('noop', lambda it_, a, kw: None)
    return MISSING


# --------------------------------------------------------------------------
# methods of built-in types


_LIST_OK = {'append', 'extend', 'insert', 'pop', 'reverse', 'copy', 'clear'}
_DICT_OK = {'get', 'items', 'keys', 'values', 'pop', 'update', 'setdefault',
            'copy', 'clear'}


def deep_plain(v):
    return ops._plain(v)


def call_host_method(it, hm, args, kw):
    recv, name = hm.recv, hm.name
    # ---- bytes
    if isinstance(recv, (SBytes, bytes, bytearray)):
        return bytes_method(it, recv, name, args, kw)
    # ---- str
    if isinstance(recv, (SStr, OpaqueStr)) or (
            isinstance(recv, str) and (any(is_symbolic(a) or isinstance(
                a, OpaqueStr) for a in args) or _has_sym(args))):
        from . import strings
        return strings.str_method(it, recv, name, args, kw)
    if isinstance(recv, str):
        if name == 'join':
            items = it.iterate(args[0])
            if any(isinstance(x, (SStr, OpaqueStr)) for x in items):
                from . import strings
                return strings.str_method(it, recv, name, [items], kw)
            return it.host_call(recv.join, items)
        if name == 'format':
            if not deep_plain(list(args)) or not deep_plain(
                    list(kw.values())):
                return OpaqueStr('format', tuple(args))
        return it.host_call(getattr(recv, name), *args, **kw)
    # ---- list
    if isinstance(recv, list):
        if name in _LIST_OK:
            if name == 'extend':
                recv.extend(it.iterate(args[0]))
                it.heap_writes += 1
                return None
            if name in ('append', 'insert', 'pop', 'reverse', 'clear'):
                it.heap_writes += 1
            if any(isinstance(a, SInt) for a in args[:1]) and \
                    name in ('insert', 'pop'):
                raise Unsupported('list.%s with symbolic index' % name)
            return it.host_call(getattr(recv, name), *args, **kw)
        if name == 'index':
            for i, x in enumerate(recv):
                if it.truth(ops.py_eq(it, x, args[0])):
                    return i
            it.throw(ValueError, 'x not in list')
        if name == 'count':
            n = 0
            for x in recv:
                if it.truth(ops.py_eq(it, x, args[0])):
                    n += 1
            return n
        if name == 'remove':
            for i, x in enumerate(recv):
                if it.truth(ops.py_eq(it, x, args[0])):
                    del recv[i]
                    it.heap_writes += 1
                    return None
            it.throw(ValueError, 'list.remove(x): x not in list')
        if name == 'sort' and deep_plain(recv):
            it.heap_writes += 1
            return it.host_call(recv.sort, **kw)
        raise Unsupported('list.%s' % name)
    if isinstance(recv, tuple):
        if name in ('index', 'count'):
            return call_host_method(it, type(hm)(list(recv), name), args, kw)
        raise Unsupported('tuple.%s' % name)
    # ---- dict
    if isinstance(recv, dict):
        if name in _DICT_OK:
            if name == 'get' and args and (is_symbolic(args[0]) or any(
                    is_symbolic(x) for x in recv)):
                x = ops.dict_find(it, recv, args[0])
                if x is ops._MISSING:
                    return args[1] if len(args) > 1 else kw.get('default')
                return recv[x]
            if name == 'setdefault' and args and (is_symbolic(args[0]) or any(
                    is_symbolic(x) for x in recv)):
                x = ops.dict_find(it, recv, args[0])
                if x is ops._MISSING:
                    it.heap_writes += 1
                    v = args[1] if len(args) > 1 else None
                    recv[args[0]] = v
                    return v
                return recv[x]
            if name in ('get', 'pop', 'setdefault') and args and (
                    is_symbolic(args[0]) or any(is_symbolic(x)
                                                for x in recv)):
                raise Unsupported('dict.%s with symbolic key' % name)
            if name in ('pop', 'update', 'setdefault', 'clear'):
                it.heap_writes += 1
            if name == 'update':
                if args:
                    src = args[0]
                    if isinstance(src, dict):
                        for k, v in list(src.items()):
                            ops.setitem(it, recv, k, v)
                    else:
                        for kv in it.iterate(src):
                            k, v = it.iterate(kv)
                            ops.setitem(it, recv, k, v)
                recv.update(kw)
                return None
            r = it.host_call(getattr(recv, name), *args, **kw)
            if name in ('items', 'keys', 'values'):
                return list(r)
            return r
        raise Unsupported('dict.%s' % name)
    # ---- set
    if isinstance(recv, PySet):
        if name == 'add':
            recv.add(args[0])
            it.heap_writes += 1
            return None
        if name == 'discard':
            recv.discard(args[0])
            it.heap_writes += 1
            return None
        if name == 'remove':
            if args[0] not in recv:
                it.throw(KeyError, args[0])
            recv.discard(args[0])
            it.heap_writes += 1
            return None
        if name == 'copy':
            return recv.copy()
        if name == 'union':
            return PySet(list(recv) + [x for a in args
                                       for x in it.iterate(a)])
        if name == 'difference':
            other = PySet(x for a in args for x in it.iterate(a))
            return PySet(x for x in recv if x not in other)
        if name == 'update':
            for a in args:
                for x in it.iterate(a):
                    recv.add(x)
            it.heap_writes += 1
            return None
        if name == 'issubset':
            other = PySet(it.iterate(args[0]))
            return all(x in other for x in recv)
        raise Unsupported('set.%s' % name)
    # ---- numbers
    if isinstance(recv, (int, float)) and not _has_sym(args):
        return it.host_call(getattr(recv, name), *args, **kw)
    if isinstance(recv, (SInt, SReal)):
        if name == 'bit_length' or name == 'to_bytes':
            raise Unsupported('%s on symbolic int' % name)
        if name == 'is_integer' and isinstance(recv, SReal):
            return mk_bool(z3.IsInt(recv.e))
    raise Unsupported('method %s of %r' % (name, recv))


def _has_sym(args):
    for a in args:
        if is_symbolic(a) or isinstance(a, (OpaqueStr, Obj)):
            return True
        if isinstance(a, (list, tuple)) and _has_sym(a):
            return True
    return False


def bytes_method(it, recv, name, args, kw):
    if isinstance(recv, (bytes, bytearray)) and not _has_sym(args):
        return it.host_call(getattr(bytes(recv), name), *args, **kw)
    if name == 'startswith':
        if len(args) > 1 or kw:
            # bytes.startswith(prefix, start[, end]) == the window starts
            # with the prefix
            start = args[1] if len(args) > 1 else None
            end = args[2] if len(args) > 2 else None
            return ops.bytes_startswith(
                it, ops.bytes_slice(it, recv, slice(start, end, None)),
                args[0])
        return ops.bytes_startswith(it, recv, args[0])
    if name == 'endswith':
        if len(args) > 1 or kw:
            raise Unsupported('bytes.endswith with start/end')
        sfx = args[0]
        if not isinstance(sfx, bytes):
            raise Unsupported('endswith symbolic suffix')
        b = ops.as_sbytes(recv)
        n = b.zlen()
        k = len(sfx)
        return mk_bool(z3.And([n >= k] + [b.at(n - k + i) == sfx[i]
                                          for i in range(k)]))
    if name in ('decode', 'index', 'find', 'hex', 'split', 'strip',
                'rstrip', 'lstrip', 'count', 'replace', 'lower', 'upper',
                'partition'):
        from . import strings
        return strings.bytes_method(it, recv, name, args, kw)
    raise Unsupported('bytes.%s on symbolic bytes' % name)

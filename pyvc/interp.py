"""pyvc interpreter: executes the Python AST of real /repo functions (and of
the contract scripts) over host-concrete and symbolic values.

One semantics for code and specification: contract scripts are interpreted by
this same evaluator in proof mode and run natively by CPython in replay mode.
"""
import ast
import os

import z3

from .core import (EngineError, Unsupported, PathEnd, PyRaise, SInt, SReal,
                   SBool, SBytes, SStr, Opaque, Obj, PySet, mk_int, mk_bool,
                   mk_real, zint, zreal, zbool, is_symbolic)
from . import ops

# --------------------------------------------------------------------------
# program-level values


class ModuleVal:
    def __init__(self, name, path=None):
        self.name = name
        self.path = path
        self.ns = {}

    def __repr__(self):
        return '<module %s>' % self.name


class FuncVal:
    def __init__(self, node, module, closure, defaults, kw_defaults, name,
                 qualname):
        self.node = node
        self.module = module
        self.closure = closure
        self.defaults = defaults
        self.kw_defaults = kw_defaults
        self.name = name
        self.qualname = qualname
        self.defcls = None
        self.attrs = {}
        self.is_generator = None
        self._locals = None

    def __repr__(self):
        return '<function %s>' % self.qualname


class BoundMethod:
    def __init__(self, selfv, func):
        self.selfv = selfv
        self.func = func

    def __repr__(self):
        return '<bound %r of %r>' % (self.func, self.selfv)

    def __eq__(self, other):
        return (isinstance(other, BoundMethod) and other.selfv is self.selfv
                and other.func is self.func)

    def __hash__(self):
        return hash((id(self.selfv), id(self.func)))


class ClassVal:
    def __init__(self, name, bases, ns, module, qualname=None, host=None):
        self.name = name
        self.bases = bases
        self.ns = ns
        self.module = module
        self.qualname = qualname or name
        self.host = host
        self.mro = _c3(self)

    def lookup(self, name):
        for c in self.mro:
            if name in c.ns:
                return c.ns[name], c
        return None, None

    def __repr__(self):
        return '<class %s>' % self.qualname


def _c3(cls):
    seqs = [list(b.mro) for b in cls.bases] + [list(cls.bases)]
    res = [cls]
    while True:
        seqs = [s for s in seqs if s]
        if not seqs:
            return res
        for s in seqs:
            cand = s[0]
            if not any(cand in t[1:] for t in seqs):
                break
        else:
            raise Unsupported('inconsistent MRO for %s' % cls.name)
        res.append(cand)
        for s in seqs:
            if s[0] is cand:
                del s[0]


class PropertyVal:
    def __init__(self, fget, fset=None):
        self.fget = fget
        self.fset = fset


class StaticMethodVal:
    def __init__(self, f):
        self.f = f


class ClassMethodVal:
    def __init__(self, f):
        self.f = f


class Builtin:
    """Host-implemented callable: fn(interp, args, kwargs)."""

    def __init__(self, name, fn):
        self.name = name
        self.fn = fn

    def __repr__(self):
        return '<builtin %s>' % self.name


class BuiltinType:
    """int, str, bytes, ... as first-class values (callable, isinstance)."""

    def __init__(self, host):
        self.host = host
        self.name = host.__name__

    def __repr__(self):
        return '<type %s>' % self.name

    def __eq__(self, other):
        return isinstance(other, BuiltinType) and other.host is self.host

    def __hash__(self):
        return hash(self.host)


class HostMethod:
    def __init__(self, recv, name):
        self.recv = recv
        self.name = name


class SuperVal:
    def __init__(self, cls, selfv):
        self.cls = cls
        self.selfv = selfv


class GeneratorVal:
    """A generator function call, executed eagerly into a list when iterated
    (sound for generators without side effects between yields that the
    consumer could observe; used only where a contract says so)."""

    def __init__(self, func, args, kwargs):
        self.func = func
        self.args = args
        self.kwargs = kwargs


class GeneratorCM:
    """Result of calling a @contextlib.contextmanager function."""

    def __init__(self, func, args, kwargs):
        self.func = func
        self.args = args
        self.kwargs = kwargs


class _Return(Exception):
    def __init__(self, v):
        self.v = v


class _Break(Exception):
    pass


class _Continue(Exception):
    pass


class Frame:
    def __init__(self, func, locals_, closure, module, local_names):
        self.func = func
        self.locals = locals_
        self.closure = closure       # list of dicts, innermost first
        self.module = module
        self.local_names = local_names
        self.loop_ordinal = 0


def _assigned_names(node):
    """Names bound in a function body (not descending into nested scopes)."""
    names = set()
    globs = set()

    def targets(t):
        if isinstance(t, ast.Name):
            names.add(t.id)
        elif isinstance(t, (ast.Tuple, ast.List)):
            for e in t.elts:
                targets(e)
        elif isinstance(t, ast.Starred):
            targets(t.value)

    def visit(n):
        for c in ast.iter_child_nodes(n):
            if isinstance(c, (ast.FunctionDef, ast.AsyncFunctionDef,
                              ast.ClassDef)):
                names.add(c.name)
                continue
            if isinstance(c, ast.Lambda):
                continue
            if isinstance(c, (ast.ListComp, ast.SetComp, ast.DictComp,
                              ast.GeneratorExp)):
                # own scope, but walrus aside nothing leaks
                continue
            if isinstance(c, ast.Assign):
                for t in c.targets:
                    targets(t)
            elif isinstance(c, (ast.AugAssign, ast.AnnAssign)):
                targets(c.target)
            elif isinstance(c, (ast.For, ast.AsyncFor)):
                targets(c.target)
            elif isinstance(c, (ast.With, ast.AsyncWith)):
                for it in c.items:
                    if it.optional_vars is not None:
                        targets(it.optional_vars)
            elif isinstance(c, ast.ExceptHandler):
                if c.name:
                    names.add(c.name)
            elif isinstance(c, (ast.Import, ast.ImportFrom)):
                for a in c.names:
                    names.add((a.asname or a.name).split('.')[0])
            elif isinstance(c, (ast.Global, ast.Nonlocal)):
                globs.update(c.names)
            elif isinstance(c, ast.NamedExpr):
                targets(c.target)
            visit(c)

    visit(node)
    return names - globs


def _has_yield(node):
    for n in ast.walk(node):
        if isinstance(n, (ast.Yield, ast.YieldFrom)):
            return True
    return False


class Interp:
    def __init__(self, repo_root='/repo', verif_root='/verif'):
        self.repo_root = repo_root
        self.verif_root = verif_root
        self.modules = {}          # name -> ModuleVal
        self.pristine = {}         # name -> namespace snapshot at load time
        self.sources = {}          # path -> source text override (canaries)
        self.path = None           # current core.Path
        self.frames = []
        self.exc_stack = []        # exceptions being handled (innermost last)
        self.stubs = {}            # (module name, qualname) -> callable value
        self.invariants = {}       # (module name, qualname, ordinal) -> spec
        self.module_models = {}    # module name -> factory(interp)->ModuleVal
        self.builtin_exc = {}
        self.builtins = {}
        self.trusted = set()       # assumption tags used
        self.inlined = set()
        self.called = set()
        self.heap_writes = 0
        self.heap_log = None
        from . import models
        models.install(self)

    # ------------------------------------------------------------------
    # modules

    def reset_path(self, path):
        self.path = path
        for g in getattr(self, 'live_generators', []):
            try:
                g.close()
            except Exception:
                pass
        self.live_generators = []
        self._cur_gen = None
        self.frames = []
        self.exc_stack = []
        self.heap_writes = 0

    def module_file(self, name):
        rel = name.replace('.', '/')
        for root in (self.repo_root, self.verif_root):
            for cand in (os.path.join(root, rel + '.py'),
                         os.path.join(root, rel, '__init__.py')):
                if os.path.exists(cand) or cand in self.sources:
                    return cand
        return None

    def import_module(self, name):
        if name in self.modules:
            return self.modules[name]
        if name in self.module_models:
            m = self.module_models[name](self)
            self.modules[name] = m
            self.exec_prelude(m, name)
            return m
        top = name.split('.')[0]
        if top in ('oslo_utils', 'contracts'):
            f = self.module_file(name)
            if f is None:
                raise Unsupported('module not found: %s' % name)
            return self.load_file(name, f)
        # unknown third-party / stdlib module: opaque namespace
        m = ModuleVal(name)
        m.opaque = True
        self.modules[name] = m
        return m

    def exec_prelude(self, m, name):
        """Merge pyvc/prelude/<name>.py - Python-level models, interpreted
        like any other source - into the module model m."""
        path = os.path.join(os.path.dirname(os.path.abspath(__file__)),
                            'prelude', name + '.py')
        if not os.path.exists(path):
            return m
        with open(path) as f:
            src = f.read()
        tree = ast.parse(src, path)
        keep = dict(m.ns)
        m.ns.setdefault('__name__', m.name)
        fr = Frame(None, m.ns, [], m, None)
        self.frames.append(fr)
        try:
            for st in tree.body:
                self.exec_stmt(st, fr)
        finally:
            self.frames.pop()
        # engine builtins win over prelude definitions of the same name
        m.ns.update(keep)
        return m

    def load_file(self, name, filename):
        if filename in self.sources:
            src = self.sources[filename]
        else:
            with open(filename) as f:
                src = f.read()
        tree = ast.parse(src, filename)
        m = ModuleVal(name, filename)
        m.ns['__name__'] = name
        m.ns['__file__'] = filename
        m.source = src
        m.tree = tree
        self.modules[name] = m
        fr = Frame(None, m.ns, [], m, None)
        self.frames.append(fr)
        m.load_problems = []
        try:
            for st in tree.body:
                try:
                    self.exec_stmt(st, fr)
                except Unsupported as e:
                    # a top-level statement outside the subset: the names it
                    # binds become opaque (using them is Unsupported later);
                    # the rest of the module is still loaded
                    names = _assigned_names(ast.Module(body=[st],
                                                       type_ignores=[]))
                    for n in names:
                        m.ns.setdefault(n, Opaque('%s.%s (not loaded: %s)'
                                                  % (name, n, e)))
                    m.load_problems.append((st.lineno, str(e)))
        finally:
            self.frames.pop()
        self.pristine[name] = self.snapshot_module(m)
        return m

    def snapshot_module(self, m):
        """Namespace of a freshly loaded module (and of its classes and
        function attributes): restored before every path, because proof
        scripts patch module state."""
        extra = {}
        for k, v in m.ns.items():
            if isinstance(v, FuncVal):
                extra[k] = dict(v.attrs)
            elif isinstance(v, ClassVal) and v.module is m:
                extra[k] = dict(v.ns)
        return (dict(m.ns), extra)

    def restore_modules(self):
        for name, (ns, extra) in self.pristine.items():
            m = self.modules[name]
            m.ns.clear()
            m.ns.update(ns)
            for k, a in extra.items():
                v = m.ns.get(k)
                if isinstance(v, FuncVal):
                    v.attrs.clear()
                    v.attrs.update(a)
                elif isinstance(v, ClassVal):
                    v.ns.clear()
                    v.ns.update(a)

    # ------------------------------------------------------------------
    # exceptions

    def exc_class(self, host_cls):
        c = self.builtin_exc.get(host_cls)
        if c is None:
            bases = [self.exc_class(b) for b in host_cls.__bases__
                     if b is not object]
            c = ClassVal(host_cls.__name__, bases, {}, None, host=host_cls)
            self.builtin_exc[host_cls] = c
        return c

    def make_exc(self, host_cls, *args):
        o = self.new_obj(self.exc_class(host_cls))
        o.attrs['args'] = tuple(args)
        return o

    def in_contract_code(self):
        """Is the innermost frame executing code of a contract script (a
        model / duck / proof body), as opposed to code of the repository?"""
        if not self.frames:
            return False
        m = self.frames[-1].module
        return m is not None and getattr(m, 'name', '').startswith(
            'contracts')

    def throw(self, host_cls, *args):
        if host_cls in (AttributeError, TypeError) and \
                self.in_contract_code() and not getattr(self, 'probing', 0):
            # raised by the engine (not by a `raise` statement) while running
            # the code of a model or duck written in a contract script: the
            # model does not cover what the code under verification asked of
            # it.  That is a gap of the model, not behaviour of the code.
            raise Unsupported('model gap in contract code: %s: %s' % (
                host_cls.__name__, args[0] if args else ''))
        raise PyRaise(self.make_exc(host_cls, *args))

    def wrap_host_exc(self, e):
        return self.make_exc(type(e), *e.args)

    def host_call(self, fn, *args, **kwargs):
        try:
            return fn(*args, **kwargs)
        except EngineError:
            raise
        except PyRaise:
            raise
        except Exception as e:      # noqa
            raise PyRaise(self.wrap_host_exc(e))

    def new_obj(self, cls):
        oid = next(self.path.oid) if self.path is not None else \
            next(self._static_oid)
        return Obj(cls, oid)

    import itertools as _it
    _static_oid = _it.count(10 ** 6)

    def is_subclass(self, c, d):
        if isinstance(d, tuple):
            return any(self.is_subclass(c, x) for x in d)
        if isinstance(c, ClassVal) and isinstance(d, ClassVal):
            return d in c.mro
        if isinstance(c, BuiltinType) and isinstance(d, BuiltinType):
            return issubclass(c.host, d.host)
        return False

    def exc_matches(self, exc, spec):
        if isinstance(spec, tuple):
            return any(self.exc_matches(exc, s) for s in spec)
        if isinstance(spec, ClassVal):
            return spec in exc.cls.mro
        raise Unsupported('except clause with %r' % (spec,))

    # ------------------------------------------------------------------
    # truthiness and branching

    def truth(self, v):
        """Python truthiness of v as a host bool, forking on symbolic."""
        t = ops.truthy(self, v)
        if isinstance(t, bool):
            return t
        return self.path.branch(t)

    # ------------------------------------------------------------------
    # statements

    def exec_block(self, body, fr):
        for st in body:
            self.exec_stmt(st, fr)

    def exec_stmt(self, st, fr):
        m = getattr(self, 'st_' + type(st).__name__, None)
        if m is None:
            raise Unsupported('statement %s at line %d' %
                              (type(st).__name__, st.lineno))
        return m(st, fr)

    def st_Expr(self, st, fr):
        if isinstance(st.value, ast.Constant):
            return
        self.eval(st.value, fr)

    def st_Pass(self, st, fr):
        pass

    def st_Return(self, st, fr):
        raise _Return(None if st.value is None else self.eval(st.value, fr))

    def st_Break(self, st, fr):
        raise _Break()

    def st_Continue(self, st, fr):
        raise _Continue()

    def st_Global(self, st, fr):
        pass

    def st_Nonlocal(self, st, fr):
        pass

    def st_Assert(self, st, fr):
        if not self.truth(self.eval(st.test, fr)):
            msg = () if st.msg is None else (self.eval(st.msg, fr),)
            self.throw(AssertionError, *msg)

    def st_Import(self, st, fr):
        for a in st.names:
            m = self.import_module(a.name)
            if a.asname:
                self.store_name(a.asname, m, fr)
            else:
                top = a.name.split('.')[0]
                self.store_name(top, self.import_module(top), fr)

    def st_ImportFrom(self, st, fr):
        modname = st.module or ''
        if st.level:
            base = fr.module.name.split('.')
            if not (fr.module.path or '').endswith('__init__.py'):
                base = base[:-1]
            base = base[:len(base) - (st.level - 1)]
            modname = '.'.join(base + ([st.module] if st.module else []))
        m = self.import_module(modname)
        for a in st.names:
            if a.name == '*':
                for k, v in m.ns.items():
                    if not k.startswith('_'):
                        self.store_name(k, v, fr)
                continue
            if a.name in m.ns:
                v = m.ns[a.name]
            else:
                sub = modname + '.' + a.name
                if getattr(m, 'opaque', False):
                    if sub in self.module_models or self.module_file(sub):
                        v = self.import_module(sub)
                    else:
                        v = Opaque(sub)
                elif self.module_file(sub) or sub in self.module_models:
                    v = self.import_module(sub)
                else:
                    raise Unsupported('cannot import %s from %s' %
                                      (a.name, modname))
            self.store_name(a.asname or a.name, v, fr)

    def st_FunctionDef(self, st, fr):
        f = self.make_function(st, fr)
        for d in reversed(st.decorator_list):
            try:
                dec = self.eval(d, fr)
            except Unsupported as e:
                dec = Opaque('decorator: %s' % e)
            f = self.apply_decorator(dec, f, st)
        self.store_name(st.name, f, fr)

    def apply_decorator(self, dec, f, st):
        if isinstance(dec, Opaque):
            # unmodelled decorator: the function is kept, but calling it is
            # outside the supported subset
            if isinstance(f, FuncVal):
                f.unmodelled_decorator = dec.what
            return f
        return self.call(dec, [f], {})

    def make_function(self, node, fr, name=None):
        a = node.args
        defaults = [self.eval(d, fr) for d in a.defaults]
        kw_defaults = [None if d is None else self.eval(d, fr)
                       for d in a.kw_defaults]
        name = name or getattr(node, 'name', '<lambda>')
        if fr.func is not None:
            qual = fr.func.qualname + '.<locals>.' + name
            closure = [fr.locals] + fr.closure
        elif getattr(fr, 'class_qual', None):
            qual = fr.class_qual + '.' + name
            closure = fr.closure
        else:
            qual = name
            closure = []
        return FuncVal(node, fr.module, closure, defaults, kw_defaults, name,
                       qual)

    def st_ClassDef(self, st, fr):
        bases = [self.eval(b, fr) for b in st.bases]
        cbases = []
        for b in bases:
            if isinstance(b, ClassVal):
                cbases.append(b)
            elif isinstance(b, BuiltinType) and b.host is object:
                pass
            elif isinstance(b, Opaque):
                # unmodelled base class: its attributes are unavailable
                pass
            else:
                raise Unsupported('class %s: base %r' % (st.name, b))
        ns = {}
        cfr = Frame(fr.func, ns, ([fr.locals] + fr.closure) if fr.func
                    else fr.closure, fr.module, None)
        cfr.class_qual = (getattr(fr, 'class_qual', None) + '.' + st.name
                          if getattr(fr, 'class_qual', None) else
                          (fr.func.qualname + '.<locals>.' + st.name
                           if fr.func else st.name))
        cfr.is_class = True
        self.exec_block(st.body, cfr)
        cls = ClassVal(st.name, cbases, ns, fr.module, cfr.class_qual)
        for v in ns.values():
            f = v
            if isinstance(f, (StaticMethodVal, ClassMethodVal)):
                f = f.f
            if isinstance(f, PropertyVal):
                for g in (f.fget, f.fset):
                    if isinstance(g, FuncVal):
                        g.defcls = cls
            elif isinstance(f, FuncVal):
                f.defcls = cls
        for d in reversed(st.decorator_list):
            cls = self.call(self.eval(d, fr), [cls], {})
        self.store_name(st.name, cls, fr)

    def st_Assign(self, st, fr):
        v = self.eval(st.value, fr)
        for t in st.targets:
            self.assign(t, v, fr)

    def st_AnnAssign(self, st, fr):
        if st.value is not None:
            self.assign(st.target, self.eval(st.value, fr), fr)

    def st_AugAssign(self, st, fr):
        t = st.target
        if isinstance(t, ast.Name):
            cur = self.load_name(t.id, fr)
            v = self.binop(type(st.op), cur, self.eval(st.value, fr),
                           inplace=True)
            self.store_name(t.id, v, fr)
        elif isinstance(t, ast.Attribute):
            o = self.eval(t.value, fr)
            cur = self.getattr(o, t.attr)
            v = self.binop(type(st.op), cur, self.eval(st.value, fr),
                           inplace=True)
            self.setattr(o, t.attr, v)
        elif isinstance(t, ast.Subscript):
            o = self.eval(t.value, fr)
            k = self.eval_index(t.slice, fr)
            cur = self.getitem(o, k)
            v = self.binop(type(st.op), cur, self.eval(st.value, fr),
                           inplace=True)
            self.setitem(o, k, v)
        else:
            raise Unsupported('augassign target')

    def st_Delete(self, st, fr):
        targets = []
        for t in st.targets:
            if isinstance(t, (ast.Tuple, ast.List)):
                targets.extend(t.elts)
            else:
                targets.append(t)
        for t in targets:
            if isinstance(t, ast.Subscript):
                o = self.eval(t.value, fr)
                k = self.eval_index(t.slice, fr)
                self.delitem(o, k)
            elif isinstance(t, ast.Name):
                if t.id in fr.locals:
                    del fr.locals[t.id]
                else:
                    self.throw(NameError, t.id)
            elif isinstance(t, ast.Attribute):
                o = self.eval(t.value, fr)
                if isinstance(o, Obj) and t.attr in o.attrs:
                    del o.attrs[t.attr]
                    self.heap_writes += 1
                else:
                    self.throw(AttributeError, t.attr)
            else:
                raise Unsupported('del target')

    def assign(self, t, v, fr):
        if isinstance(t, ast.Name):
            self.store_name(t.id, v, fr)
        elif isinstance(t, ast.Attribute):
            self.setattr(self.eval(t.value, fr), t.attr, v)
        elif isinstance(t, ast.Subscript):
            o = self.eval(t.value, fr)
            self.setitem(o, self.eval_index(t.slice, fr), v)
        elif isinstance(t, (ast.Tuple, ast.List)):
            items = self.iterate(v)
            star = [i for i, e in enumerate(t.elts)
                    if isinstance(e, ast.Starred)]
            if star:
                i = star[0]
                after = len(t.elts) - i - 1
                if len(items) < len(t.elts) - 1:
                    self.throw(ValueError, 'not enough values to unpack')
                for e, x in zip(t.elts[:i], items[:i]):
                    self.assign(e, x, fr)
                self.assign(t.elts[i].value,
                            list(items[i:len(items) - after]), fr)
                for e, x in zip(t.elts[i + 1:], items[len(items) - after:]):
                    self.assign(e, x, fr)
                return
            if len(items) != len(t.elts):
                self.throw(ValueError, 'wrong number of values to unpack '
                           '(expected %d, got %d)' % (len(t.elts),
                                                      len(items)))
            for e, x in zip(t.elts, items):
                self.assign(e, x, fr)
        else:
            raise Unsupported('assignment target %s' % type(t).__name__)

    def st_If(self, st, fr):
        if self.truth(self.eval(st.test, fr)):
            self.exec_block(st.body, fr)
        else:
            self.exec_block(st.orelse, fr)

    def st_While(self, st, fr):
        ordinal = fr.loop_ordinal
        fr.loop_ordinal += 1
        inv = self.find_invariant(fr, ordinal)
        if inv is not None:
            return self.loop_with_invariant(st, fr, inv, None)
        n = 0
        while True:
            n += 1
            if n > 100000:
                raise Unsupported('while loop without invariant does not '
                                  'terminate concretely (line %d)' % st.lineno)
            if not self.truth(self.eval(st.test, fr)):
                self.exec_block(st.orelse, fr)
                break
            try:
                self.exec_block(st.body, fr)
            except _Break:
                break
            except _Continue:
                continue

    def st_For(self, st, fr):
        ordinal = fr.loop_ordinal
        fr.loop_ordinal += 1
        itv = self.eval(st.iter, fr)
        inv = self.find_invariant(fr, ordinal)
        if inv is not None:
            return self.loop_with_invariant(st, fr, inv, itv)
        from .models import SentinelIter
        if isinstance(itv, SentinelIter):
            itv = ops.sentinel_items(self, itv)
        if isinstance(itv, ops.SymRange):
            raise Unsupported('for over symbolic range without invariant '
                              '(%s line %d)' % (fr.func.qualname if fr.func
                                                else '?', st.lineno))
        items = self.iterate(itv, lazy=True)
        broke = False
        for x in items:
            self.assign(st.target, x, fr)
            try:
                self.exec_block(st.body, fr)
            except _Break:
                broke = True
                break
            except _Continue:
                continue
        if not broke:
            self.exec_block(st.orelse, fr)

    def find_invariant(self, fr, ordinal):
        if fr.func is None:
            return None
        key = (fr.module.name, fr.func.qualname, ordinal)
        return self.invariants.get(key)

    def loop_with_invariant(self, st, fr, inv, itv):
        from . import loops
        return loops.run(self, st, fr, inv, itv)

    def st_With(self, st, fr):
        self._with(st, 0, fr)

    def _with(self, st, i, fr):
        if i == len(st.items):
            return self.exec_block(st.body, fr)
        item = st.items[i]
        mgr = self.eval(item.context_expr, fr)
        if isinstance(mgr, GeneratorCM):
            return self._with_generator(st, i, fr, item, mgr)
        enter = self.getattr(mgr, '__enter__')
        exit_ = self.getattr(mgr, '__exit__')
        v = self.call(enter, [], {})
        if item.optional_vars is not None:
            self.assign(item.optional_vars, v, fr)
        try:
            self._with(st, i + 1, fr)
        except PyRaise as e:
            self.exc_stack.append(e.exc)
            try:
                r = self.call(exit_, [e.exc.cls, e.exc,
                                      e.exc.attrs.get('__traceback__')], {})
                suppress = self.truth(r)
            finally:
                self.exc_stack.pop()
            if not suppress:
                raise
        except (_Return, _Break, _Continue):
            self.call(exit_, [None, None, None], {})
            raise
        else:
            self.call(exit_, [None, None, None], {})

    def _with_generator(self, st, i, fr, item, mgr):
        """`with` on a contextlib.contextmanager generator: the generator
        body is executed and the with-block runs at its (single) yield - an
        exception of the block surfaces at the yield, exactly as
        generator.throw() does (A-CTXLIB)."""
        state = {'yields': 0, 'pending': None}

        def at_yield(value):
            state['yields'] += 1
            if state['yields'] > 1:
                self.throw(RuntimeError, "generator didn't stop")
            if item.optional_vars is not None:
                self.assign(item.optional_vars, value, fr)
            try:
                self._with(st, i + 1, fr)
            except (_Return, _Break, _Continue) as cf:
                state['pending'] = cf
            return None
        f = mgr.func
        loc = self.bind_args(f, mgr.args, mgr.kwargs)
        if f._locals is None:
            f._locals = set(loc) | _assigned_names(f.node)
        gfr = Frame(f, loc, f.closure, f.module, f._locals)
        old = getattr(self, '_yield_cb', None)
        self._yield_cb = at_yield
        self.frames.append(gfr)
        try:
            try:
                self.exec_block(f.node.body, gfr)
            except _Return:
                pass
        finally:
            self.frames.pop()
            self._yield_cb = old
        if state['yields'] == 0:
            self.throw(RuntimeError, "generator didn't yield")
        if state['pending'] is not None:
            raise state['pending']

    def st_Raise(self, st, fr):
        if st.exc is None:
            if not self.exc_stack:
                self.throw(RuntimeError, 'No active exception to reraise')
            raise PyRaise(self.exc_stack[-1])
        v = self.eval(st.exc, fr)
        if isinstance(v, ClassVal):
            v = self.call(v, [], {})
        if not (isinstance(v, Obj) and self.is_exception(v)):
            self.throw(TypeError, 'exceptions must derive from BaseException')
        if st.cause is not None:
            c = self.eval(st.cause, fr)
            if isinstance(c, ClassVal):
                c = self.call(c, [], {})
            v.attrs['__cause__'] = c
            v.attrs['__suppress_context__'] = True
        if self.exc_stack and self.exc_stack[-1] is not v:
            v.attrs.setdefault('__context__', self.exc_stack[-1])
        self.note_raise(v, st)
        raise PyRaise(v)

    def note_raise(self, exc, st):
        tb = exc.attrs.get('__traceback__')
        where = (self.frames[-1].func.qualname if self.frames and
                 self.frames[-1].func else '<module>', st.lineno)
        exc.attrs['__traceback__'] = ((tb or ()) + (where,))

    def is_exception(self, o):
        return any(c.host is BaseException for c in o.cls.mro
                   if c.host is not None)

    def st_Try(self, st, fr):
        try:
            try:
                self.exec_block(st.body, fr)
            except PyRaise as e:
                exc = e.exc
                for h in st.handlers:
                    if h.type is None or self.exc_matches(
                            exc, self.eval(h.type, fr)):
                        if h.name:
                            self.store_name(h.name, exc, fr)
                        self.exc_stack.append(exc)
                        try:
                            self.exec_block(h.body, fr)
                        finally:
                            self.exc_stack.pop()
                            if h.name and h.name in fr.locals:
                                del fr.locals[h.name]
                        break
                else:
                    raise
            else:
                self.exec_block(st.orelse, fr)
        finally:
            if st.finalbody:
                # host `finally` gives Python's semantics for return/raise
                # inside the final body overriding the pending outcome
                self.exec_block(st.finalbody, fr)

    # ------------------------------------------------------------------
    # names

    def load_name(self, name, fr):
        if fr.local_names is None:
            # module or class body
            if name in fr.locals:
                return fr.locals[name]
        elif name in fr.local_names:
            if name in fr.locals:
                return fr.locals[name]
            self.throw(UnboundLocalError, name)
        for sc in fr.closure:
            if name in sc:
                return sc[name]
        g = fr.module.ns
        if name in g:
            return g[name]
        if name in self.builtins:
            return self.builtins[name]
        self.throw(NameError, "name '%s' is not defined" % name)

    def store_name(self, name, v, fr):
        fr.locals[name] = v

    # ------------------------------------------------------------------
    # expressions

    def eval(self, e, fr):
        m = getattr(self, 'ex_' + type(e).__name__, None)
        if m is None:
            raise Unsupported('expression %s at line %d' %
                              (type(e).__name__, getattr(e, 'lineno', 0)))
        return m(e, fr)

    def ex_Constant(self, e, fr):
        return e.value

    def ex_Name(self, e, fr):
        return self.load_name(e.id, fr)

    def ex_NamedExpr(self, e, fr):
        v = self.eval(e.value, fr)
        self.assign(e.target, v, fr)
        return v

    def ex_Tuple(self, e, fr):
        # (*t, x, ...) with t a tuple with a symbolic prefix: t + (x, ...)
        if e.elts and isinstance(e.elts[0], ast.Starred) and not any(
                isinstance(x, ast.Starred) for x in e.elts[1:]):
            first = self.eval(e.elts[0].value, fr)
            if isinstance(first, ops.SymTuple):
                rest = tuple(self.eval(x, fr) for x in e.elts[1:])
                return ops.SymTuple(first.nrest, first.items + rest,
                                    first.tag)
            return tuple(list(self.iterate(first))
                         + [self.eval(x, fr) for x in e.elts[1:]])
        return tuple(self.eval_elts(e.elts, fr))

    def ex_List(self, e, fr):
        return list(self.eval_elts(e.elts, fr))

    def ex_Set(self, e, fr):
        return PySet(self.eval_elts(e.elts, fr))

    def eval_elts(self, elts, fr):
        out = []
        for x in elts:
            if isinstance(x, ast.Starred):
                out.extend(self.iterate(self.eval(x.value, fr)))
            else:
                out.append(self.eval(x, fr))
        return out

    def ex_Dict(self, e, fr):
        d = {}
        for k, v in zip(e.keys, e.values):
            if k is None:
                d.update(self.eval(v, fr))
            else:
                d[self.dict_key(self.eval(k, fr))] = self.eval(v, fr)
        return d

    def dict_key(self, k):
        # symbolic keys are held by identity (see ops._sym_key_ok)
        return k

    def ex_JoinedStr(self, e, fr):
        parts = []
        sym = False
        for v in e.values:
            if isinstance(v, ast.Constant):
                parts.append(v.value)
            else:
                x = self.eval(v.value, fr)
                if is_symbolic(x) or isinstance(x, (Obj, Opaque)):
                    sym = True
                    parts.append(x)
                else:
                    parts.append(self.host_call(
                        format, ops.to_host_str(self, x),
                        '' if v.format_spec is None else
                        self.eval(v.format_spec, fr)))
        if sym:
            return ops.OpaqueStr('fstring', tuple(parts))
        return ''.join(parts)

    def ex_BoolOp(self, e, fr):
        is_and = isinstance(e.op, ast.And)
        v = None
        for i, x in enumerate(e.values):
            v = self.eval(x, fr)
            if i == len(e.values) - 1:
                return v
            t = self.truth(v)
            if is_and and not t:
                return v
            if not is_and and t:
                return v
        return v

    def ex_UnaryOp(self, e, fr):
        v = self.eval(e.operand, fr)
        if isinstance(e.op, ast.Not):
            t = ops.truthy(self, v)
            if isinstance(t, bool):
                return not t
            return mk_bool(z3.Not(t.e))
        return ops.unary(self, type(e.op), v)

    def ex_BinOp(self, e, fr):
        return self.binop(type(e.op), self.eval(e.left, fr),
                          self.eval(e.right, fr))

    def binop(self, op, a, b, inplace=False):
        return ops.binop(self, op, a, b, inplace)

    def ex_Compare(self, e, fr):
        left = self.eval(e.left, fr)
        res = True
        n = len(e.ops)
        for i, (op, rx) in enumerate(zip(e.ops, e.comparators)):
            right = self.eval(rx, fr)
            res = ops.compare(self, type(op), left, right)
            if i < n - 1:
                if not self.truth(res):
                    return res
            left = right
        return res

    def ex_IfExp(self, e, fr):
        if self.truth(self.eval(e.test, fr)):
            return self.eval(e.body, fr)
        return self.eval(e.orelse, fr)

    def ex_Lambda(self, e, fr):
        return self.make_function(e, fr, '<lambda>')

    def ex_Attribute(self, e, fr):
        return self.getattr(self.eval(e.value, fr), e.attr)

    def ex_Subscript(self, e, fr):
        o = self.eval(e.value, fr)
        return self.getitem(o, self.eval_index(e.slice, fr))

    def eval_index(self, s, fr):
        if isinstance(s, ast.Slice):
            return slice(None if s.lower is None else self.eval(s.lower, fr),
                         None if s.upper is None else self.eval(s.upper, fr),
                         None if s.step is None else self.eval(s.step, fr))
        return self.eval(s, fr)

    def ex_Slice(self, e, fr):
        return self.eval_index(e, fr)

    def ex_Starred(self, e, fr):
        raise Unsupported('starred expression')

    def ex_ListComp(self, e, fr):
        out = []
        self._comp(e.generators, 0, fr, lambda f: out.append(
            self.eval(e.elt, f)))
        return out

    def ex_GeneratorExp(self, e, fr):
        return ops.LazyGen(self, e, fr)

    def ex_SetComp(self, e, fr):
        out = PySet()
        self._comp(e.generators, 0, fr, lambda f: out.add(
            self.eval(e.elt, f)))
        return out

    def ex_DictComp(self, e, fr):
        out = {}

        def put(f):
            k = self.dict_key(self.eval(e.key, f))
            out[k] = self.eval(e.value, f)
        self._comp(e.generators, 0, fr, put)
        return out

    def comp_frame(self, fr):
        cf = Frame(fr.func, {}, [fr.locals] + fr.closure
                   if fr.local_names is not None else fr.closure,
                   fr.module, None)
        if fr.local_names is None and not getattr(fr, 'is_class', False):
            # module-level comprehension sees module globals anyway
            pass
        if getattr(fr, 'is_comp', False) or fr.local_names is None:
            cf.closure = [fr.locals] + fr.closure
        cf.is_comp = True
        return cf

    def _comp(self, gens, i, fr, emit, cf=None):
        if cf is None:
            cf = self.comp_frame(fr)
        if i == len(gens):
            emit(cf)
            return
        g = gens[i]
        src = self.eval(g.iter, cf if i else fr)
        for x in self.iterate(src, lazy=True):
            self.assign(g.target, x, cf)
            ok = True
            for c in g.ifs:
                if not self.truth(self.eval(c, cf)):
                    ok = False
                    break
            if ok:
                self._comp(gens, i + 1, fr, emit, cf)

    def ex_Call(self, e, fr):
        # zero-argument super()
        if (isinstance(e.func, ast.Name) and e.func.id == 'super'
                and not e.args and not e.keywords):
            f = fr
            while getattr(f, 'is_comp', False):
                raise Unsupported('super() inside comprehension')
            if fr.func is None or fr.func.defcls is None:
                raise Unsupported('super() outside method')
            first = fr.func.node.args.args[0].arg
            return SuperVal(fr.func.defcls, fr.locals[first])
        f = self.eval(e.func, fr)
        args = []
        for a in e.args:
            if isinstance(a, ast.Starred):
                args.extend(self.iterate(self.eval(a.value, fr)))
            else:
                args.append(self.eval(a, fr))
        kwargs = {}
        for k in e.keywords:
            if k.arg is None:
                d = self.eval(k.value, fr)
                if not isinstance(d, dict):
                    raise Unsupported('** of non-dict')
                kwargs.update(d)
            else:
                kwargs[k.arg] = self.eval(k.value, fr)
        return self.call(f, args, kwargs, node=e)

    def ex_Yield(self, e, fr):
        raise Unsupported('yield outside a modelled generator')

    # ------------------------------------------------------------------
    # calls

    def call(self, f, args, kwargs, node=None):
        if isinstance(f, BoundMethod):
            return self.call(f.func, [f.selfv] + list(args), kwargs, node)
        if isinstance(f, FuncVal):
            return self.call_function(f, args, kwargs)
        if isinstance(f, Builtin):
            try:
                return f.fn(self, list(args), kwargs)
            except IndexError:
                # a model indexed past the arguments it was given
                self.throw(TypeError, '%s: wrong number of arguments'
                           % f.name)
        if isinstance(f, ClassVal):
            return self.instantiate(f, args, kwargs)
        if isinstance(f, BuiltinType):
            return ops.call_type(self, f, list(args), kwargs)
        if isinstance(f, HostMethod):
            return ops.call_host_method(self, f, list(args), kwargs)
        if isinstance(f, StaticMethodVal):
            return self.call(f.f, args, kwargs, node)
        if isinstance(f, Obj):
            m, _ = f.cls.lookup('__call__')
            if m is not None:
                return self.call(m, [f] + list(args), kwargs, node)
        if isinstance(f, Opaque):
            raise Unsupported('call of unmodelled %s' % f.what)
        raise Unsupported('call of %r' % (f,))

    def instantiate(self, cls, args, kwargs):
        if cls.host is not None or any(c.host is not None for c in cls.mro):
            # exception classes
            o = self.new_obj(cls)
            init, owner = cls.lookup('__init__')
            if init is None:
                o.attrs['args'] = tuple(args)
            else:
                o.attrs['args'] = tuple(args)
                self.call(init, [o] + list(args), kwargs)
            return o
        o = self.new_obj(cls)
        init, owner = cls.lookup('__init__')
        if init is not None:
            self.call(init, [o] + list(args), kwargs)
        elif args or kwargs:
            self.throw(TypeError, '%s() takes no arguments' % cls.name)
        return o

    def bind_args(self, f, args, kwargs):
        fm = getattr(f, 'module', None)
        if fm is not None and getattr(fm, 'name', '').startswith(
                'contracts') and self.frames and not self.in_contract_code():
            # the repository calls a model written in a contract script: a
            # signature the model does not offer is a model gap
            try:
                return self._bind_args(f, args, kwargs)
            except PyRaise as e:
                raise Unsupported('model gap: %s of a contract script called '
                                  'with a signature it does not model (%s)'
                                  % (f.name, e.exc.attrs.get('args', ('',))[0]
                                     if hasattr(e.exc, 'attrs') else ''))
        return self._bind_args(f, args, kwargs)

    def _bind_args(self, f, args, kwargs):
        a = f.node.args
        loc = {}
        pos = [p.arg for p in getattr(a, 'posonlyargs', [])] + \
              [p.arg for p in a.args]
        args = list(args)
        if len(args) > len(pos) and a.vararg is None:
            self.throw(TypeError, '%s() takes %d positional arguments but '
                       '%d were given' % (f.name, len(pos), len(args)))
        for n, v in zip(pos, args):
            loc[n] = v
        if a.vararg is not None:
            loc[a.vararg.arg] = tuple(args[len(pos):])
        kwargs = dict(kwargs)
        for n in pos[len(args):]:
            if n in kwargs:
                loc[n] = kwargs.pop(n)
        for n in list(kwargs):
            if n in loc and n in pos:
                self.throw(TypeError, "%s() got multiple values for "
                           "argument '%s'" % (f.name, n))
        nd = len(f.defaults)
        for i, n in enumerate(pos):
            if n not in loc:
                j = i - (len(pos) - nd)
                if j >= 0:
                    loc[n] = f.defaults[j]
                else:
                    self.throw(TypeError, "%s() missing required positional "
                               "argument: '%s'" % (f.name, n))
        for p, d in zip(a.kwonlyargs, f.kw_defaults):
            if p.arg in kwargs:
                loc[p.arg] = kwargs.pop(p.arg)
            elif d is not None or p.arg in [q.arg for q, dd in zip(
                    a.kwonlyargs, a.kw_defaults) if dd is not None]:
                loc[p.arg] = d
            else:
                self.throw(TypeError, "%s() missing keyword-only argument "
                           "'%s'" % (f.name, p.arg))
        if a.kwarg is not None:
            loc[a.kwarg.arg] = kwargs
        elif kwargs:
            self.throw(TypeError, "%s() got an unexpected keyword argument "
                       "'%s'" % (f.name, sorted(kwargs)[0]))
        return loc

    def call_function(self, f, args, kwargs):
        if getattr(f, 'unmodelled_decorator', None):
            raise Unsupported('%s is wrapped by an unmodelled decorator (%s)'
                              % (f.qualname, f.unmodelled_decorator))
        key = (f.module.name if f.module else None, f.qualname)
        stub = self.stubs.get(key)
        if stub is not None:
            self.called.add(key)
            return self.call(stub, args, kwargs)
        if f.is_generator is None:
            f.is_generator = (not isinstance(f.node, ast.Lambda)
                              and _has_yield_fn(f.node))
        if f.is_generator:
            return GeneratorVal(f, args, kwargs)
        loc = self.bind_args(f, args, kwargs)
        if f._locals is None:
            names = set(loc)
            if not isinstance(f.node, ast.Lambda):
                names |= _assigned_names(f.node)
            f._locals = names
        fr = Frame(f, loc, f.closure, f.module, f._locals)
        if len(self.frames) > 200:
            raise Unsupported('recursion depth')
        self.frames.append(fr)
        if f.module is not None and f.module.name.startswith('oslo_utils'):
            self.inlined.add(key)
        try:
            if isinstance(f.node, ast.Lambda):
                return self.eval(f.node.body, fr)
            try:
                self.exec_block(f.node.body, fr)
            except _Return as r:
                return r.v
            return None
        finally:
            self.frames.pop()

    # ------------------------------------------------------------------
    # attribute access

    def getattr(self, o, name):
        if isinstance(o, Obj):
            v, owner = o.cls.lookup(name)
            if isinstance(v, PropertyVal):
                return self.call(v.fget, [o], {})
            if name in o.attrs:
                return o.attrs[name]
            if v is not None or owner is not None:
                return self.bind(v, o, o.cls)
            if name == '__class__':
                return o.cls
            if name == '__dict__':
                return o.attrs
            r = ops.obj_default_attr(self, o, name)
            if r is not ops.MISSING:
                return r
            ga, _ = o.cls.lookup('__getattr__')
            if ga is not None:
                return self.call(ga, [o, name], {})
            cm = getattr(o.cls, 'module', None)
            absent, _ = o.cls.lookup('__absent__')
            if cm is not None and getattr(cm, 'name', '').startswith(
                    'contracts') and name not in (absent or ()) \
                    and not name.startswith('__') \
                    and not getattr(self, 'probing', 0):
                # (a model lists in __absent__ the attributes the modelled
                # type is known NOT to have)
                raise Unsupported("model gap: the duck/model class %s of a "
                                  "contract script has no attribute '%s'"
                                  % (o.cls.name, name))
            self.throw(AttributeError, "'%s' object has no attribute '%s'"
                       % (o.cls.name, name))
        if isinstance(o, ClassVal):
            v, owner = o.lookup(name)
            if owner is not None:
                if isinstance(v, StaticMethodVal):
                    return v.f
                if isinstance(v, ClassMethodVal):
                    return BoundMethod(o, v.f)
                return v
            if name == '__name__':
                return o.name
            if name == '__qualname__':
                return o.qualname
            if name == '__mro__':
                return tuple(o.mro)
            if name == '__module__':
                return o.module.name if o.module else 'builtins'
            in_model = any(
                getattr(getattr(c, 'module', None), 'name', '').startswith(
                    'contracts') for c in o.mro if isinstance(c, ClassVal))
            absent, _ = o.lookup('__absent__')
            if in_model and name not in (absent or ()) \
                    and not name.startswith('__') \
                    and not getattr(self, 'probing', 0):
                raise Unsupported("model gap: the model class %s of a "
                                  "contract script has no attribute '%s'"
                                  % (o.name, name))
            self.throw(AttributeError, "type object '%s' has no attribute "
                       "'%s'" % (o.name, name))
        if isinstance(o, ModuleVal):
            if name in o.ns:
                return o.ns[name]
            sub = o.name + '.' + name
            if sub in self.modules:
                return self.modules[sub]
            if sub in self.module_models or (
                    o.name.split('.')[0] in ('oslo_utils', 'contracts')
                    and self.module_file(sub)):
                return self.import_module(sub)
            if getattr(o, 'opaque', False):
                return Opaque(sub)
            if o.name in self.module_models:
                # a model of a dependency, not the dependency: what it does
                # not offer is unknown to the engine, not absent from Python
                raise Unsupported('%s.%s is not modelled' % (o.name, name))
            self.throw(AttributeError, "module '%s' has no attribute '%s'"
                       % (o.name, name))
        if isinstance(o, SuperVal):
            mro = o.selfv.cls.mro if isinstance(o.selfv, Obj) else \
                o.selfv.mro
            i = mro.index(o.cls)
            for c in mro[i + 1:]:
                if name in c.ns:
                    return self.bind(c.ns[name], o.selfv, c)
            r = ops.super_default_attr(self, o, name)
            if r is not ops.MISSING:
                return r
            self.throw(AttributeError, "'super' object has no attribute "
                       "'%s'" % name)
        if isinstance(o, FuncVal):
            if name in o.attrs:
                return o.attrs[name]
            if name == '__name__':
                return o.name
            if name == '__qualname__':
                return o.qualname
            if name == '__doc__':
                return ast.get_docstring(o.node) if not isinstance(
                    o.node, ast.Lambda) else None
            if name == '__module__':
                return o.module.name if o.module else None
            if name == '__dict__':
                return o.attrs
            if name == '__get__':
                def _get(it_, a, kw, _f=o):
                    return _f if a[0] is None else BoundMethod(a[0], _f)
                return Builtin('function.__get__', _get)
            self.throw(AttributeError, "function has no attribute '%s'"
                       % name)
        if isinstance(o, BoundMethod):
            if name == '__self__':
                return o.selfv
            if name == '__func__':
                return o.func
            return self.getattr(o.func, name)
        if isinstance(o, Opaque):
            return Opaque(o.what + '.' + name)
        return ops.getattr_value(self, o, name)

    def bind(self, v, selfv, cls):
        if isinstance(v, FuncVal):
            return BoundMethod(selfv, v)
        if isinstance(v, StaticMethodVal):
            return v.f
        if isinstance(v, ClassMethodVal):
            return BoundMethod(cls if isinstance(selfv, Obj) else selfv, v.f)
        if isinstance(v, PropertyVal):
            return self.call(v.fget, [selfv], {})
        if isinstance(v, Builtin) and getattr(v, 'is_method', False):
            return BoundMethod(selfv, v)
        if isinstance(v, Obj):
            g, _ = v.cls.lookup('__get__')
            if g is not None:
                inst = selfv if isinstance(selfv, Obj) else None
                return self.call(g, [v, inst, cls], {})
        return v

    def setattr(self, o, name, v):
        if isinstance(o, Obj):
            pv, owner = o.cls.lookup(name)
            if isinstance(pv, PropertyVal):
                if pv.fset is None:
                    self.throw(AttributeError, "can't set attribute '%s'"
                               % name)
                self.call(pv.fset, [o, v], {})
                return
            o.attrs[name] = v
            self.heap_writes += 1
            if self.heap_log is not None:
                self.heap_log.append((o, name))
            return
        if isinstance(o, FuncVal):
            o.attrs[name] = v
            self.heap_writes += 1
            return
        if isinstance(o, ClassVal):
            o.ns[name] = v
            self.heap_writes += 1
            return
        if isinstance(o, ModuleVal):
            o.ns[name] = v
            return
        raise Unsupported('setattr on %r' % (o,))

    # ------------------------------------------------------------------
    # subscripts / iteration (delegated)

    def getitem(self, o, k):
        return ops.getitem(self, o, k)

    def setitem(self, o, k, v):
        self.heap_writes += 1
        return ops.setitem(self, o, k, v)

    def delitem(self, o, k):
        self.heap_writes += 1
        return ops.delitem(self, o, k)

    def iterate(self, v, lazy=False):
        return ops.iterate(self, v, lazy)


def _has_yield_fn(node):
    """yield directly in this function (not in nested defs)."""
    def visit(n):
        for c in ast.iter_child_nodes(n):
            if isinstance(c, (ast.FunctionDef, ast.AsyncFunctionDef,
                              ast.Lambda, ast.ClassDef)):
                continue
            if isinstance(c, (ast.Yield, ast.YieldFrom)):
                return True
            if visit(c):
                return True
        return False
    return visit(node)

"""Bounded universal quantification in specifications:
forall_int(lo, hi, lambda i: P(i))  ==  all(P(i) for i in range(lo, hi)).

With symbolic bounds the body is evaluated once on a fresh bound variable;
the body must be fork-free (built from comparisons, conj/disj/implies/ite),
otherwise the run is Unsupported."""
import z3

from .core import Unsupported, SInt, SBool, mk_bool, zint, zbool
from . import ops


def forall_int(it, lo, hi, fn):
    if isinstance(lo, int) and isinstance(hi, int) and hi - lo <= 4096:
        r = True
        for i in range(lo, hi):
            r = ops.bool_and(r, ops.truthy(it, it.call(fn, [i], {})))
            if r is False:
                return False
        return r
    p = it.path
    k = z3.Int('q!%d' % next(p.fresh))
    p.binder_depth += 1
    pos = p.pos
    ndec = len(p.decisions)
    try:
        body = ops.truthy(it, it.call(fn, [SInt(k)], {}))
    finally:
        p.binder_depth -= 1
    if p.pos != pos:
        raise Unsupported('quantifier body forked')
    if isinstance(body, bool):
        if body:
            return True
        return mk_bool(z3.Not(z3.And(zint(lo) <= zint(lo), zint(lo) < zint(hi))))
    return mk_bool(z3.ForAll([k], z3.Implies(
        z3.And(k >= zint(lo), k < zint(hi)), body.e)))

"""Second opinion from cvc5 for queries z3 leaves `unknown`."""
import os
import subprocess
import tempfile

import z3


def cvc5_check(solver, negated_goal, timeout_ms):
    s2 = z3.Solver()
    s2.add(solver.assertions())
    s2.add(negated_goal)
    text = '(set-logic ALL)\n' + s2.to_smt2()
    fd, path = tempfile.mkstemp(suffix='.smt2')
    try:
        with os.fdopen(fd, 'w') as f:
            f.write(text)
        try:
            r = subprocess.run(['/usr/bin/cvc5', '--strings-exp',
                                '--tlimit=%d' % timeout_ms, path],
                               capture_output=True, text=True,
                               timeout=timeout_ms / 1000 + 5)
        except (subprocess.TimeoutExpired, OSError):
            return 'unknown'
        out = r.stdout.strip().splitlines()
        if out and out[0] in ('sat', 'unsat'):
            return out[0]
        return 'unknown'
    finally:
        os.unlink(path)

"""pyvc core: symbolic values, path exploration by re-execution, solver access.

The engine interprets the Python AST of the real functions in /repo (see
interp.py).  Values are host Python values wherever they are concrete and
instances of the S* classes below where they are symbolic.  A *path* is one
complete execution of a proof script; every branch on a symbolic condition
consults the decision prefix of the path and, when the prefix is exhausted,
asks the solver which sides are feasible, takes one and queues the other.
Nothing is copied at a fork: the other side is explored by re-running the
script from the start with a longer decision prefix.
"""
import itertools
import time

import z3

# --------------------------------------------------------------------------
# control-flow signals of the engine (not Python exceptions of the program)


class EngineError(Exception):
    """Base class for conditions that are the engine's, not the program's."""


class Unsupported(EngineError):
    """The program left the supported subset (exit 2, never a violation)."""


class PathEnd(EngineError):
    """The current path is cut (assume False / end of an arbitrary iteration)."""


class PyRaise(Exception):
    """A Python exception raised by the interpreted program."""

    def __init__(self, exc):
        super().__init__(exc)
        self.exc = exc


# --------------------------------------------------------------------------
# symbolic values


def _simp(e):
    return z3.simplify(e)


class SInt:
    """Symbolic int.  Normally a z3 Int term `e`.  A *bit-vector backed* SInt
    (created by fresh_bits) carries `bv` (a 256-bit z3 BitVec, value
    zero-extended) and `bits` (value < 2**bits, bits <= 255): arithmetic
    that stays within 255 bits is done in the bit-vector theory (exact, no
    wrap-around because the bound is tracked); `e` is then BV2Int(bv)."""
    __slots__ = ('_e', 'bv', 'bits')

    def __init__(self, e=None, bv=None, bits=None):
        self._e = e
        self.bv = bv
        self.bits = bits

    @property
    def e(self):
        if self._e is None:
            self._e = z3.BV2Int(self.bv, False)
        return self._e

    def __repr__(self):
        return 'SInt(%s)' % (self._e if self._e is not None else self.bv)


class SReal:
    __slots__ = ('e',)

    def __init__(self, e):
        self.e = e

    def __repr__(self):
        return 'SReal(%s)' % self.e


class SBool:
    __slots__ = ('e',)

    def __init__(self, e):
        self.e = e

    def __repr__(self):
        return 'SBool(%s)' % self.e


def mk_int(e):
    """z3 Int expression -> host int when it is a numeral, else SInt."""
    if isinstance(e, int):
        return e
    e = _simp(e)
    if z3.is_int_value(e):
        return e.as_long()
    return SInt(e)


def mk_bool(e):
    if isinstance(e, bool):
        return e
    e = _simp(e)
    if z3.is_true(e):
        return True
    if z3.is_false(e):
        return False
    return SBool(e)


def mk_real(e):
    if isinstance(e, (int, float)):
        return e
    e = _simp(e)
    return SReal(e)


def zint(v):
    """host int / bool / SInt -> z3 Int expression."""
    if isinstance(v, SInt):
        return v.e
    if isinstance(v, bool):
        return z3.IntVal(1 if v else 0)
    if isinstance(v, int):
        return z3.IntVal(v)
    if isinstance(v, SBool):
        return z3.If(v.e, z3.IntVal(1), z3.IntVal(0))
    raise Unsupported('not an integer: %r' % (v,))


def zreal(v):
    if isinstance(v, SReal):
        return v.e
    if isinstance(v, SInt):
        return z3.ToReal(v.e)
    if isinstance(v, bool):
        return z3.RealVal(1 if v else 0)
    if isinstance(v, int):
        return z3.RealVal(v)
    if isinstance(v, float):
        # A-FLOAT: the float's exact rational value
        import fractions
        f = fractions.Fraction(v)
        return z3.RealVal(f.numerator) / z3.RealVal(f.denominator)
    raise Unsupported('not a number: %r' % (v,))


def zbool(v):
    if isinstance(v, SBool):
        return v.e
    if isinstance(v, bool):
        return z3.BoolVal(v)
    raise Unsupported('not a bool: %r' % (v,))


def is_symbolic(v):
    return isinstance(v, (SInt, SReal, SBool, SBytes, SStr))


class SBytes:
    """Symbolic bytes: `at(i)` gives the z3 Int (0..255) at index i (a z3 Int
    expression or host int), `length` is a host int or z3 Int expression.
    Immutable."""
    __slots__ = ('at', 'length', 'tag')

    def __init__(self, at, length, tag=None):
        self.at = at
        if not isinstance(length, int):
            length = _simp(length)
            if z3.is_int_value(length):
                length = length.as_long()
        self.length = length
        self.tag = tag

    def zlen(self):
        return self.length if not isinstance(self.length, int) \
            else z3.IntVal(self.length)

    def __repr__(self):
        return 'SBytes(len=%s)' % (self.length,)


class SStr:
    """Symbolic str backed by a z3 String expression."""
    __slots__ = ('e',)

    def __init__(self, e):
        self.e = e

    def __repr__(self):
        return 'SStr(%s)' % self.e


class Opaque:
    """A value about which nothing is known (result of an abstracted call).
    Any use other than passing it around is Unsupported."""
    __slots__ = ('what',)

    def __init__(self, what):
        self.what = what

    def __repr__(self):
        return 'Opaque(%s)' % self.what


# --------------------------------------------------------------------------
# heap objects of the interpreted program

class Obj:
    """Instance of an interpreted class.  Hash/eq are by allocation number so
    that container iteration order is the same on every re-execution."""
    __slots__ = ('cls', 'attrs', 'oid')

    def __init__(self, cls, oid):
        self.cls = cls
        self.attrs = {}
        self.oid = oid

    def __hash__(self):
        return self.oid

    def __eq__(self, other):
        return self is other

    def __repr__(self):
        return '<%s #%d>' % (self.cls.name, self.oid)


class PySet:
    """Insertion-ordered set (see Obj: deterministic iteration)."""

    def __init__(self, items=()):
        self.d = {}
        for i in items:
            self.d[i] = None

    def __iter__(self):
        return iter(list(self.d))

    def __len__(self):
        return len(self.d)

    def __contains__(self, x):
        return x in self.d

    def add(self, x):
        self.d[x] = None

    def discard(self, x):
        self.d.pop(x, None)

    def copy(self):
        return PySet(self.d)

    def __repr__(self):
        return 'PySet(%r)' % (list(self.d),)


# --------------------------------------------------------------------------
# obligations


class Obligation:
    def __init__(self, name):
        self.name = name
        self.queries = 0
        self.discharged = 0
        self.failed = []      # list of dict(model=..., decisions=...)
        self.undecided = []   # list of reason strings
        self.time_s = 0.0
        self.backends = set()

    @property
    def status(self):
        if self.failed:
            return 'refuted'
        if self.undecided:
            return 'undecided'
        if self.queries == 0:
            return 'unreached'
        return 'discharged'


class Stats:
    def __init__(self):
        self.paths = 0
        self.cut_paths = 0
        self.branch_queries = 0
        self.solver_time = 0.0


# --------------------------------------------------------------------------
# one path


import os as _os
TRACE = bool(_os.environ.get('PYVC_TRACE'))


class Path:
    """State of the path being executed: decision prefix, path condition,
    incremental solver, named symbolic inputs."""

    def __init__(self, explorer, decisions):
        self.x = explorer
        self.decisions = list(decisions)
        self.pos = 0
        self.solver = z3.Solver()
        self.solver.set('timeout', explorer.branch_timeout_ms)
        self.pc = []
        self.inputs = {}          # name -> (kind, z3 term(s))
        self.oid = itertools.count(1)
        self.fresh = itertools.count(1)
        self.binder_depth = 0
        self.notes = []

    # -- facts and assumptions
    def add(self, e):
        if isinstance(e, bool):
            if not e:
                raise PathEnd()
            return
        self.solver.add(e)
        self.pc.append(e)

    def fact(self, e):
        """A universally true side fact (byte ranges...).  Dropped while a
        bound variable is in scope."""
        if self.binder_depth:
            return
        self.solver.add(e)
        self.pc.append(e)

    def _check(self, *assumptions):
        t0 = time.time()
        r = self.solver.check(*assumptions)
        self.x.stats.solver_time += time.time() - t0
        self.x.stats.branch_queries += 1
        return r

    def assume(self, cond):
        """Restrict the path to cond; cut it if cond is infeasible."""
        if isinstance(cond, bool):
            if not cond:
                raise PathEnd()
            return
        e = zbool(cond)
        self.add(e)
        # feasibility is checked lazily at the next branch/check; an
        # infeasible path discharges everything vacuously, so check now.
        if self._check() == z3.unsat:
            raise PathEnd()

    def branch(self, cond):
        """Decide a symbolic condition on this path (forking when both sides
        are feasible)."""
        if isinstance(cond, bool):
            return cond
        e = zbool(cond)
        if self.pos < len(self.decisions):
            d = self.decisions[self.pos]
            self.pos += 1
            self.add(e if d else z3.Not(e))
            return d
        _t0 = time.time()
        rt = self._check(e)
        rf = self._check(z3.Not(e))
        if TRACE and time.time() - _t0 > 1:
            import sys
            sys.stderr.write('  branch %s/%s %.1fs: %s\n' % (
                rt, rf, time.time() - _t0, str(z3.simplify(e))[:400]))
            if time.time() - _t0 > 4 and _os.environ.get('PYVC_DUMP'):
                n = len(_os.listdir(_os.environ['PYVC_DUMP']))
                if n < 6:
                    with open(_os.path.join(_os.environ['PYVC_DUMP'],
                                            'slow_%d.smt2' % n), 'w') as f:
                        f.write(self.solver.to_smt2())
                        f.write('; cond: %s\n' % e.sexpr())
        if rt == z3.unsat and rf == z3.unsat:
            raise PathEnd()
        if rt == z3.unsat:
            d = False
        elif rf == z3.unsat:
            d = True
        else:
            d = True
            self.x.push(self.decisions[:self.pos] + [False])
        self.decisions.append(d)
        self.pos += 1
        self.add(e if d else z3.Not(e))
        return d

    def choose(self, n, label=''):
        """Ghost non-deterministic choice among n alternatives (0..n-1)."""
        for k in range(n - 1):
            if self.pos < len(self.decisions):
                d = self.decisions[self.pos]
                self.pos += 1
            else:
                d = True
                self.x.push(self.decisions[:self.pos] + [False])
                self.decisions.append(d)
                self.pos += 1
            if d:
                return k
        return n - 1

    def implied(self, cond):
        """True iff the path condition entails cond (engine-internal side
        conditions, e.g. operand ranges of bit operations)."""
        if isinstance(cond, bool):
            return cond
        e = cond if z3.is_expr(cond) else zbool(cond)
        e = z3.simplify(e)
        if z3.is_true(e):
            return True
        if z3.is_false(e):
            return False
        return self._check(z3.Not(e)) == z3.unsat

    # -- obligations
    def check(self, name, cond):
        ob = self.x.obligation(name)
        ob.queries += 1
        if name not in self.x.reached:
            # vacuity guard: the obligation must be reached at least once
            # under a satisfiable path condition
            if self._check() != z3.unsat:
                self.x.reached.add(name)
        if isinstance(cond, bool):
            if cond:
                ob.discharged += 1
                ob.backends.add('constant-folding')
                return
            # concretely false on a feasible path: need a model of the pc
            e = z3.BoolVal(False)
        else:
            e = zbool(cond)
        t0 = time.time()
        self.solver.set('timeout', self.x.query_timeout_ms)
        r = self.solver.check(z3.Not(e))
        self.solver.set('timeout', self.x.branch_timeout_ms)
        dt = time.time() - t0
        if TRACE and dt > 1:
            import sys
            sys.stderr.write('  check %s: %s %.1fs\n' % (name, r, dt))
        ob.time_s += dt
        self.x.stats.solver_time += dt
        if r == z3.unsat:
            ob.discharged += 1
            ob.backends.add('z3-' + z3.get_version_string())
            if self.x.cross_check and name not in self.x.crossed:
                from . import smt2
                r2 = smt2.cvc5_check(self.solver, z3.Not(e), 10000)
                self.x.crossed[name] = r2
                if r2 == 'unsat':
                    ob.backends.add('cvc5 (cross-check)')
        elif r == z3.sat:
            if len(ob.failed) < 2:
                m = self.solver.model()
                ob.failed.append({'inputs': self.model_inputs(m, z3.Not(e)),
                                  'decisions':
                                  list(self.decisions[:self.pos])})
            else:
                ob.failed.append({'inputs': None, 'decisions':
                                  list(self.decisions[:self.pos])})
        else:
            r2 = self.x.second_opinion(self.solver, z3.Not(e))
            if r2 == 'unsat':
                ob.discharged += 1
                ob.backends.add('cvc5')
            else:
                ob.undecided.append('solver unknown: %s' %
                                    self.solver.reason_unknown())
        # assert-then-assume
        if not isinstance(cond, bool):
            self.add(e)
            if ob.failed and self._check() == z3.unsat:
                raise PathEnd()
        elif not cond:
            raise PathEnd()

    def cover(self, name):
        """Reachability witness: this point was reached on a feasible path."""
        if self._check() == z3.sat:
            self.x.covered.add(name)

    # -- models
    def model_inputs(self, m, extra=None):
        """Concrete values of the named inputs.  Tries to find a model with
        short byte strings / small numbers first (nicer replays)."""
        for bound in (48, 4096):
            small = []
            for name, (kind, t) in self.inputs.items():
                if kind == 'bytes':
                    small.append(t[1] <= bound)
            if not small:
                break
            self.solver.push()
            if extra is not None:
                self.solver.add(extra)
            self.solver.add(*small)
            ok = self.solver.check() == z3.sat
            if ok:
                m = self.solver.model()
            self.solver.pop()
            if ok:
                break
        out = {}
        for name, (kind, t) in self.inputs.items():
            if kind == 'int':
                v = m.eval(t, model_completion=True)
                out[name] = v.as_long()
            elif kind == 'bits':
                out[name] = m.eval(t, model_completion=True).as_long()
            elif kind == 'bool':
                out[name] = z3.is_true(m.eval(t, model_completion=True))
            elif kind == 'real':
                v = m.eval(t, model_completion=True)
                try:
                    out[name] = {'real': [v.numerator_as_long(),
                                          v.denominator_as_long()]}
                except Exception:
                    out[name] = {'real_str': str(v)}
            elif kind == 'bytes':
                arr, ln = t
                n = m.eval(ln, model_completion=True).as_long()
                n = max(0, n)
                if n > (1 << 22):
                    out[name] = {'bytes_len': n, 'note': 'too long to list'}
                    continue
                bs = bytearray()
                for i in range(n):
                    b = m.eval(arr[i], model_completion=True).as_long()
                    bs.append(b & 0xff)
                out[name] = {'bytes_hex': bytes(bs).hex()}
            elif kind == 'str':
                v = m.eval(t, model_completion=True)
                out[name] = {'str': v.as_string() if z3.is_string_value(v)
                             else str(v)}
            elif kind == 'choice':
                out[name] = t
        return out


# --------------------------------------------------------------------------


class Explorer:
    """Runs a proof function over all its paths."""

    def __init__(self, branch_timeout_ms=5000, query_timeout_ms=10000,
                 max_paths=60000, use_cvc5=True, cross_check=False):
        # cross_check: the first z3-discharged query of every obligation is
        # also put to cvc5 (thorough tier); a `sat` there is a solver
        # disagreement and reported as a checker error
        self.cross_check = cross_check
        self.crossed = {}
        self.branch_timeout_ms = branch_timeout_ms
        self.query_timeout_ms = query_timeout_ms
        self.max_paths = max_paths
        self.use_cvc5 = use_cvc5
        self.work = []
        self.obligations = {}
        self.covered = set()
        self.reached = set()
        self.stats = Stats()
        self.errors = []          # (kind, message, decisions)
        self.path = None

    def push(self, decisions):
        self.work.append(decisions)

    def obligation(self, name):
        ob = self.obligations.get(name)
        if ob is None:
            ob = self.obligations[name] = Obligation(name)
        return ob

    def second_opinion(self, solver, negated_goal):
        if not self.use_cvc5:
            return 'unknown'
        from . import smt2
        return smt2.cvc5_check(solver, negated_goal,
                               self.query_timeout_ms)

    def run(self, fn):
        """fn(path) executes the proof script once along `path`."""
        self.work = [[]]
        while self.work:
            if self.stats.paths >= self.max_paths:
                self.errors.append(('limit', 'path limit %d reached'
                                    % self.max_paths, []))
                break
            decisions = self.work.pop()
            p = Path(self, decisions)
            self.path = p
            self.stats.paths += 1
            _t0 = time.time()
            try:
                fn(p)
            except PathEnd:
                self.stats.cut_paths += 1
            except Unsupported as e:
                self.errors.append(('unsupported', str(e),
                                    list(p.decisions[:p.pos])))
            except PyRaise as e:
                # an exception escaped the proof script itself
                self.errors.append(('script-exception', repr(e.exc),
                                    list(p.decisions[:p.pos])))
            finally:
                self.path = None
                if TRACE:
                    import sys
                    sys.stderr.write('path %d: %d decisions, %.1fs %s\n' % (
                        self.stats.paths, len(p.decisions[:p.pos]),
                        time.time() - _t0, p.decisions[:p.pos]))
        return self

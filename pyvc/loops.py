"""pyvc loop rule: loops whose trip count is symbolic are cut by an invariant
supplied by the contract script (`invariant(module, qualname, ordinal, fn)`).

for k in range(lo, hi):  Inv(k, L) must hold at the loop head for every
lo <= k <= max(lo, hi); obligations  <name>/init, <name>/step; the code after
the loop runs under Inv(max(lo,hi), L) with the variables assigned in the body
havocked.  A `return`/`break`/`raise` inside an arbitrary iteration continues
into the rest of the function under Inv(k, L).  Heap writes in an iteration
that goes on to the next one are not supported (reported, never ignored).
Termination is not verified.
"""
import ast

import z3

from .core import (Unsupported, PathEnd, SInt, SReal, SBool, SBytes, Opaque,
                   Obj, mk_int, mk_bool, zint, is_symbolic)
from . import ops
from .interp import _Break, _Continue, _assigned_names
from .models import HostNamespace


def havoc_value(it, name, cur):
    p = it.path
    tag = '%s!h%d' % (name, next(p.fresh))
    if isinstance(cur, (bool, SBool)):
        return SBool(z3.Bool(tag))
    if isinstance(cur, (int, SInt)):
        return SInt(z3.Int(tag))
    if isinstance(cur, (float, SReal)):
        return SReal(z3.Real(tag))
    if isinstance(cur, (bytes, SBytes)):
        arr = z3.Array(tag, z3.IntSort(), z3.IntSort())
        ln = z3.Int(tag + '.len')
        p.add(ln >= 0)
        return ops.base_bytes(it, tag, arr, ln)
    return Opaque('havocked loop variable %s' % name)


def run(it, st, fr, inv, itv):
    p = it.path
    name = it.ob_prefix + inv['name']
    fn = inv['fn']
    is_for = isinstance(st, ast.For)
    from .models import SentinelIter
    if is_for and isinstance(itv, SentinelIter):
        return run_sentinel(it, st, fr, inv, itv)
    body_mod = ast.Module(body=st.body, type_ignores=[])
    mod = _assigned_names(body_mod)
    if is_for:
        if not isinstance(st.target, ast.Name):
            raise Unsupported('invariant loop with non-name target')
        tgt = st.target.id
        mod.discard(tgt)
        str_seq = None
        from .core import SStr
        if isinstance(itv, SStr):
            # for ch in s:  ==  for k in range(len(s)): ch = s[k]
            str_seq = itv
            lo, hi = 0, mk_int(z3.Length(itv.e))
        elif isinstance(itv, ops.SymRange):
            lo, hi = itv.lo, itv.hi
        elif isinstance(itv, range) and itv.step == 1:
            lo, hi = itv.start, itv.stop
        else:
            raise Unsupported('invariant loop over %r' % (itv,))
        loz, hiz = zint(lo), zint(hi)
        end = mk_int(z3.If(hiz > loz, hiz, loz))

    def L():
        return HostNamespace('locals', dict(fr.locals))

    def inv_at(k=None):
        args = [L()] if k is None else [k, L()]
        return ops.truthy(it, it.call(fn, args, {}))

    # ---- init
    p.check(name + '/init', inv_at(lo) if is_for else inv_at())
    which = p.choose(2, name)
    # ---- havoc
    for n in sorted(mod):
        if n in fr.locals:
            fr.locals[n] = havoc_value(it, n, fr.locals[n])
    if which == 0:
        # arbitrary iteration
        if is_for:
            k = SInt(z3.Int('%s!k%d' % (tgt, next(p.fresh))))
            p.assume(mk_bool(z3.And(k.e >= loz, k.e < hiz)))
            p.assume(inv_at(k))
            if str_seq is not None:
                from .strings import mk_str
                # the character of an arbitrary iteration: any one-character
                # string (its link to position k of the sequence is dropped -
                # an over-approximation that keeps string terms out of the
                # rest of the path)
                ch = z3.String('%s!c%d' % (tgt, next(p.fresh)))
                p.fact(z3.Length(ch) == 1)
                fr.locals[tgt] = mk_str(ch)
            else:
                fr.locals[tgt] = k
        else:
            p.assume(inv_at())
            if not it.truth(it.eval(st.test, fr)):
                raise PathEnd()
        hw = it.heap_writes
        try:
            it.exec_block(st.body, fr)
        except _Break:
            return
        except _Continue:
            pass
        if it.heap_writes != hw:
            raise Unsupported('loop %s: heap written in an iteration that '
                              'continues' % name)
        if is_for:
            p.check(name + '/step', inv_at(mk_int(k.e + 1)))
        else:
            p.check(name + '/step', inv_at())
        raise PathEnd()
    # ---- exit
    if is_for:
        p.assume(inv_at(end))
        if tgt in fr.locals or True:
            # value of the loop variable after the loop: last index, if any
            fr.locals[tgt] = Opaque('loop variable after loop')
    else:
        p.assume(inv_at())
        if it.truth(it.eval(st.test, fr)):
            raise PathEnd()
    it.exec_block(st.orelse, fr)


def run_sentinel(it, st, fr, inv, si):
    """for x in iter(f, sentinel): body   ==   while True: x = f(); if x ==
    sentinel: break; body.   Invariant Inv(L) at the loop head.  The loop may
    modify heap state: the contract declares it (`modifies`: a function
    returning [(object, attribute), ...]) and supplies `havoc` (a function
    that assigns fresh values to exactly those locations); every heap write
    of an iteration must fall inside the declared set."""
    p = it.path
    name = it.ob_prefix + inv['name']
    fn = inv['fn']
    if not isinstance(st.target, ast.Name):
        raise Unsupported('invariant loop with non-name target')
    tgt = st.target.id
    mod = _assigned_names(ast.Module(body=st.body, type_ignores=[]))
    mod.discard(tgt)

    def L():
        return HostNamespace('locals', dict(fr.locals))

    def inv_at():
        return ops.truthy(it, it.call(fn, [L()], {}))
    p.check(name + '/init', inv_at())
    for n in sorted(mod):
        if n in fr.locals:
            fr.locals[n] = havoc_value(it, n, fr.locals[n])
    havoc = inv.get('havoc')
    allowed = None
    if havoc is not None:
        it.call(havoc, [L()], {})
    if inv.get('modifies') is not None:
        allowed = [(o, a) for o, a in it.iterate(
            it.call(inv['modifies'], [L()], {}))]
    p.assume(inv_at())
    old_log = it.heap_log
    it.heap_log = []
    hw = it.heap_writes
    try:
        x = it.call(si.fn, [], {})
        if it.truth(ops.py_eq(it, x, si.sentinel)):
            # loop exit (only way out besides break/return/raise)
            check_writes(it, allowed, hw, name)
            it.heap_log = old_log
            it.exec_block(st.orelse, fr)
            return
        fr.locals[tgt] = x
        try:
            it.exec_block(st.body, fr)
        except _Break:
            check_writes(it, allowed, hw, name)
            it.heap_log = old_log
            return
        except _Continue:
            pass
        check_writes(it, allowed, hw, name)
    finally:
        if it.heap_log is not old_log:
            it.heap_log = old_log
    p.check(name + '/step', inv_at())
    raise PathEnd()


def check_writes(it, allowed, hw, name):
    if allowed is None:
        if it.heap_writes != hw:
            raise Unsupported('loop %s writes the heap but declares no '
                              '`modifies`' % name)
        return
    for o, a in it.heap_log:
        if not any(o is x and a == y for x, y in allowed):
            raise Unsupported('loop %s writes %r.%s outside its declared '
                              'modifies set' % (name, o, a))

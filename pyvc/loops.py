"""pyvc loop rule: loops whose trip count is symbolic are cut by an invariant
supplied by the contract script (`invariant(module, qualname, ordinal, fn)`).

for k in range(lo, hi):  Inv(k, L) must hold at the loop head for every
lo <= k <= max(lo, hi); obligations  <name>/init, <name>/step; the code after
the loop runs under Inv(max(lo,hi), L) with the variables assigned in the body
havocked.  A `return`/`break`/`raise` inside an arbitrary iteration continues
into the rest of the function under Inv(k, L).  Heap writes in an iteration
that goes on to the next one are not supported (reported, never ignored).
Termination is not verified.
"""
import ast

import z3

from .core import (Unsupported, PathEnd, SInt, SReal, SBool, SBytes, Opaque,
                   Obj, mk_int, mk_bool, zint, is_symbolic)
from . import ops
from .interp import _Break, _Continue, _assigned_names
from .models import HostNamespace


def havoc_value(it, name, cur):
    p = it.path
    tag = '%s!h%d' % (name, next(p.fresh))
    if isinstance(cur, (bool, SBool)):
        return SBool(z3.Bool(tag))
    if isinstance(cur, (int, SInt)):
        return SInt(z3.Int(tag))
    if isinstance(cur, (float, SReal)):
        return SReal(z3.Real(tag))
    if isinstance(cur, (bytes, SBytes)):
        arr = z3.Array(tag, z3.IntSort(), z3.IntSort())
        ln = z3.Int(tag + '.len')
        p.add(ln >= 0)
        return ops.base_bytes(it, tag, arr, ln)
    return Opaque('havocked loop variable %s' % name)


def run(it, st, fr, inv, itv):
    p = it.path
    name = it.ob_prefix + inv['name']
    fn = inv['fn']
    is_for = isinstance(st, ast.For)
    body_mod = ast.Module(body=st.body, type_ignores=[])
    mod = _assigned_names(body_mod)
    if is_for:
        if not isinstance(st.target, ast.Name):
            raise Unsupported('invariant loop with non-name target')
        tgt = st.target.id
        mod.discard(tgt)
        if isinstance(itv, ops.SymRange):
            lo, hi = itv.lo, itv.hi
        elif isinstance(itv, range) and itv.step == 1:
            lo, hi = itv.start, itv.stop
        else:
            raise Unsupported('invariant loop over %r' % (itv,))
        loz, hiz = zint(lo), zint(hi)
        end = mk_int(z3.If(hiz > loz, hiz, loz))

    def L():
        return HostNamespace('locals', dict(fr.locals))

    def inv_at(k=None):
        args = [L()] if k is None else [k, L()]
        return ops.truthy(it, it.call(fn, args, {}))

    # ---- init
    p.check(name + '/init', inv_at(lo) if is_for else inv_at())
    which = p.choose(2, name)
    # ---- havoc
    for n in sorted(mod):
        if n in fr.locals:
            fr.locals[n] = havoc_value(it, n, fr.locals[n])
    if which == 0:
        # arbitrary iteration
        if is_for:
            k = SInt(z3.Int('%s!k%d' % (tgt, next(p.fresh))))
            p.assume(mk_bool(z3.And(k.e >= loz, k.e < hiz)))
            p.assume(inv_at(k))
            fr.locals[tgt] = k
        else:
            p.assume(inv_at())
            if not it.truth(it.eval(st.test, fr)):
                raise PathEnd()
        hw = it.heap_writes
        try:
            it.exec_block(st.body, fr)
        except _Break:
            return
        except _Continue:
            pass
        if it.heap_writes != hw:
            raise Unsupported('loop %s: heap written in an iteration that '
                              'continues' % name)
        if is_for:
            p.check(name + '/step', inv_at(mk_int(k.e + 1)))
        else:
            p.check(name + '/step', inv_at())
        raise PathEnd()
    # ---- exit
    if is_for:
        p.assume(inv_at(end))
        if tgt in fr.locals or True:
            # value of the loop variable after the loop: last index, if any
            fr.locals[tgt] = Opaque('loop variable after loop')
    else:
        p.assume(inv_at())
        if it.truth(it.eval(st.test, fr)):
            raise PathEnd()
    it.exec_block(st.orelse, fr)

"""Symbolic implementation of the proof-script API (module `pyvc.api` as seen
by contract scripts while they are interpreted by the engine).  The native
implementation used for replay is pyvc/api.py."""
import z3

from .core import (Unsupported, PyRaise, PathEnd, SInt, SReal, SBool, SBytes,
                   SStr, Opaque, Obj, PySet, mk_int, mk_bool, mk_real, zint,
                   zreal, zbool, is_symbolic)
from . import ops
from .ops import SymTuple


class ProofDecl:
    def __init__(self, prop, name, fn, targets, assumes, note):
        self.prop = prop
        self.name = name
        self.fn = fn
        self.targets = targets
        self.assumes = assumes
        self.note = note
        self.kind = 'proof'
        self.bound = ''


def repo_module_name(relpath):
    if relpath.endswith('.py'):
        relpath = relpath[:-3]
    if relpath.endswith('/__init__'):
        relpath = relpath[:-9]
    return relpath.replace('/', '.')


def install(it):
    from . import interp as I
    it.proofs = []

    def factory(it):
        m = I.ModuleVal('pyvc.api')
        ns = m.ns

        def B(name):
            def deco(fn):
                ns[name] = I.Builtin('api.' + name, fn)
                return fn
            return deco

        ns['SYMBOLIC'] = True

        @B('proof')
        def _proof(it, a, kw):
            prop = a[0]
            targets = kw.get('targets', [])
            assumes = kw.get('assumes', [])
            name = kw.get('name')
            note = kw.get('note', '')

            def deco(it, b, kw2):
                f = b[0]
                d = ProofDecl(prop, name or f.name, f, list(targets),
                              list(assumes), note)
                d.native = kw.get('native', True)
                it.proofs.append(d)
                return f
            return I.Builtin('proof-decorator', deco)

        @B('bounded')
        def _bounded(it, a, kw):
            prop = a[0]
            name = kw.get('name')

            def deco(it, b, kw2):
                f = b[0]
                d = ProofDecl(prop, name or f.name, f,
                              list(kw.get('targets', [])),
                              list(kw.get('assumes', [])), kw.get('note', ''))
                d.kind = 'bounded'
                d.bound = kw.get('bound', '')
                it.proofs.append(d)
                return f
            return I.Builtin('bounded-decorator', deco)

        @B('model')
        def _model(it, a, kw):
            mod, name, val = a
            mod.ns[name] = val

        @B('rng')
        def _rng(it, a, kw):
            raise Unsupported('rng() in a symbolic run')

        @B('tier')
        def _tier(it, a, kw):
            import os
            return os.environ.get('VERIF_TIER_EFFECTIVE', 'quick')

        @B('fresh_int')
        def _fresh_int(it, a, kw):
            name = a[0]
            p = it.path
            c = z3.Int(name)
            p.inputs[name] = ('int', c)
            lo = a[1] if len(a) > 1 else kw.get('lo')
            hi = a[2] if len(a) > 2 else kw.get('hi')
            if lo is not None:
                p.add(c >= zint(lo))
            if hi is not None:
                p.add(c <= zint(hi))
            return SInt(c)

        @B('fresh_bits')
        def _fresh_bits(it, a, kw):
            """A non-negative int < 2**width, reasoned about in the
            bit-vector theory."""
            name, width = a[0], a[1]
            from .ops import BVW
            c = z3.BitVec(name, width)
            it.path.inputs[name] = ('bits', c)
            return SInt(None, z3.ZeroExt(BVW - width, c), width)

        @B('fresh_bool')
        def _fresh_bool(it, a, kw):
            c = z3.Bool(a[0])
            it.path.inputs[a[0]] = ('bool', c)
            return SBool(c)

        @B('fresh_real')
        def _fresh_real(it, a, kw):
            c = z3.Real(a[0])
            it.path.inputs[a[0]] = ('real', c)
            lo = kw.get('lo')
            if lo is not None:
                it.path.add(c >= zreal(lo))
            return SReal(c)

        @B('fresh_bytes')
        def _fresh_bytes(it, a, kw):
            name = a[0]
            arr = z3.Array(name, z3.IntSort(), z3.IntSort())
            ln = z3.Int(name + '.len')
            p = it.path
            p.add(ln >= 0)
            lo = kw.get('min_len')
            hi = kw.get('max_len')
            fixed = kw.get('length')
            if fixed is not None:
                p.add(ln == zint(fixed))
            if lo is not None:
                p.add(ln >= zint(lo))
            if hi is not None:
                p.add(ln <= zint(hi))
            p.inputs[name] = ('bytes', (arr, ln))
            return ops.base_bytes(it, name, arr,
                                  fixed if isinstance(fixed, int) else ln)

        @B('fresh_str')
        def _fresh_str(it, a, kw):
            c = z3.String(a[0])
            it.path.inputs[a[0]] = ('str', c)
            return SStr(c)

        @B('pick')
        def _pick(it, a, kw):
            name, options = a[0], list(it.iterate(a[1]))
            i = it.path.choose(len(options), name)
            it.path.inputs[name] = ('choice', i)
            return options[i]

        @B('assume')
        def _assume(it, a, kw):
            for c in a:
                t = ops.truthy(it, c)
                it.path.assume(t)

        @B('check')
        def _check(it, a, kw):
            name, cond = a[0], a[1]
            tag = a[2] if len(a) > 2 else kw.get('props')
            # kw 'detail' (case description for bounded runs) is ignored
            if tag:
                name = name + '@' + tag.replace(' ', ',')
            t = ops.truthy(it, cond)
            it.path.check(it.ob_prefix + name, t)

        @B('cover')
        def _cover(it, a, kw):
            it.path.cover(it.ob_prefix + a[0])

        @B('regex_hook')
        def _regex_hook(it, a, kw):
            """regex_hook(names, fn): calls of the listed methods on compiled
            patterns (`pat.sub(...)`) go to fn(pattern, name, args) - the
            same stand-in a script installs for the module-level re.sub."""
            names, fn = a

            def hook(it2, pat, name, args, kw2):
                if name in names:
                    return it2.call(fn, [pat, name, list(args)], {})
                return NotImplemented
            it.regex_hook = hook

        @B('unmodelled')
        def _unmodelled(it, a, kw):
            """Called by a model / duck of a contract script when the code
            under verification asks something the model does not cover: the
            proof is UNDECIDED on this path, never a violation."""
            raise Unsupported('model gap: %s' % (a[0] if a else ''))

        @B('unreachable')
        def _unreachable(it, a, kw):
            """Obligation that this point is not reachable."""
            it.path.check(it.ob_prefix + a[0], False)

        @B('load')
        def _load(it, a, kw):
            return it.import_module(repo_module_name(a[0]))

        @B('blank')
        def _blank(it, a, kw):
            o = it.new_obj(a[0])
            for k, v in kw.items():
                o.attrs[k] = v
            return o

        @B('patch')
        def _patch(it, a, kw):
            mod, name, val = a
            mod.ns[name] = val

        @B('stub')
        def _stub(it, a, kw):
            mod, qual, fn = a
            it.stubs[(mod.name, qual)] = fn

        @B('unstub')
        def _unstub(it, a, kw):
            mod, qual = a
            it.stubs.pop((mod.name, qual), None)

        @B('invariant')
        def _invariant(it, a, kw):
            mod, qual, ordinal, fn = a[:4]
            it.invariants[(mod.name, qual, ordinal)] = {
                'fn': fn, 'modifies': kw.get('modifies'),
                'havoc': kw.get('havoc'),
                'name': kw.get('name', '%s#loop%d' % (qual, ordinal))}

        @B('symtuple')
        def _symtuple(it, a, kw):
            name = a[0]
            n = z3.Int(name + '.nrest')
            it.path.add(n >= 0)
            it.path.inputs[name + '.nrest'] = ('int', n)
            return SymTuple(SInt(n), a[1] if len(a) > 1 else (), name)

        @B('same')
        def _same(it, a, kw):
            return deep_same(it, a[0], a[1])

        @B('state_of')
        def _state_of(it, a, kw):
            o = a[0]
            if isinstance(o, Obj):
                return dict(o.attrs)
            raise Unsupported('state_of(%r)' % (o,))

        @B('is_symbolic_run')
        def _isr(it, a, kw):
            return True

        @B('trust')
        def _trust(it, a, kw):
            it.trusted.add(a[0])

        @B('implies')
        def _implies(it, a, kw):
            p, q = ops.truthy(it, a[0]), ops.truthy(it, a[1])
            return ops.bool_or(ops.bool_not(p), q)

        @B('ite')
        def _ite(it, a, kw):
            """Pure conditional on numbers (no fork)."""
            c = ops.truthy(it, a[0])
            if isinstance(c, bool):
                return a[1] if c else a[2]
            x, y = a[1], a[2]
            if ops.is_real(x) or ops.is_real(y):
                return mk_real(z3.If(c.e, zreal(x), zreal(y)))
            if isinstance(x, (bool, SBool)) and isinstance(y, (bool, SBool)):
                return mk_bool(z3.If(c.e, zbool(x), zbool(y)))
            return mk_int(z3.If(c.e, zint(x), zint(y)))

        @B('neg')
        def _neg(it, a, kw):
            return ops.bool_not(ops.truthy(it, a[0]))

        @B('conj')
        def _conj(it, a, kw):
            r = True
            for x in (it.iterate(a[0]) if len(a) == 1 and isinstance(
                    a[0], (list, tuple)) else a):
                r = ops.bool_and(r, ops.truthy(it, x))
            return r

        @B('disj')
        def _disj(it, a, kw):
            r = False
            for x in (it.iterate(a[0]) if len(a) == 1 and isinstance(
                    a[0], (list, tuple)) else a):
                r = ops.bool_or(r, ops.truthy(it, x))
            return r

        @B('forall_int')
        def _forall_int(it, a, kw):
            from . import quant
            return quant.forall_int(it, a[0], a[1], a[2])

        @B('log_count')
        def _log_count(it, a, kw):
            lvl = a[0] if a else None
            return len([e for e in it.log_events
                        if lvl is None or e[0] == lvl])

        @B('exc_type_name')
        def _etn(it, a, kw):
            return a[0].cls.name

        @B('re_lang')
        def _re_lang(it, a, kw):
            from . import regex
            pattern = a[0]
            flags = a[1] if len(a) > 1 else kw.get('flags', 0)
            mode = a[2] if len(a) > 2 else kw.get('mode', 'full')
            if not isinstance(pattern, str):
                import re as _re
                if not flags:
                    flags = it.getattr(pattern, 'flags') & ~int(_re.UNICODE)
                pattern = it.getattr(pattern, 'pattern')
            return regex.Lang(pattern, int(flags), mode)

        @B('in_lang')
        def _in_lang(it, a, kw):
            from . import strings
            sv, lang = a
            if isinstance(sv, str):
                return lang.contains(sv)
            return mk_bool(z3.InRe(strings.zstr(sv), lang.z3()))

        @B('parses_as_float')
        def _paf(it, a, kw):
            from . import strings
            if isinstance(a[0], str):
                try:
                    float(a[0])
                    return True
                except ValueError:
                    return False
            return mk_bool(strings.float_ok(strings.zstr(a[0])))

        @B('parses_as_int')
        def _pai(it, a, kw):
            from . import strings
            if isinstance(a[0], str):
                try:
                    int(a[0])
                    return True
                except ValueError:
                    return False
            return mk_bool(strings.int_ok(strings.zstr(a[0])))

        @B('float_of')
        def _fo(it, a, kw):
            from . import strings
            if isinstance(a[0], str):
                return float(a[0])
            return mk_real(strings.float_val(strings.zstr(a[0])))

        @B('int_of')
        def _io(it, a, kw):
            from . import strings
            if isinstance(a[0], str):
                return int(a[0])
            return mk_int(strings.int_val(strings.zstr(a[0])))

        @B('strlen')
        def _strlen(it, a, kw):
            from . import models
            return models.py_len(it, a[0])

        from . import api_ext
        api_ext.install(it, ns, B)
        return m

    it.module_models['pyvc.api'] = factory
    it.module_models['pyvc'] = lambda it: I.ModuleVal('pyvc')
    it.ob_prefix = ''


def deep_same(it, a, b):
    """Structural equality with identity on objects -> bool/SBool."""
    if isinstance(a, Obj) or isinstance(b, Obj):
        return a is b
    if isinstance(a, dict) and isinstance(b, dict):
        if list(a.keys()) != list(b.keys()):
            if set(a.keys()) != set(b.keys()):
                return False
        r = True
        for k in a:
            r = ops.bool_and(r, deep_same(it, a[k], b[k]))
        return r
    if isinstance(a, (list, tuple)) and isinstance(b, (list, tuple)):
        if type(a) is not type(b) or len(a) != len(b):
            return False
        r = True
        for x, y in zip(a, b):
            r = ops.bool_and(r, deep_same(it, x, y))
        return r
    if isinstance(a, SymTuple) or isinstance(b, SymTuple):
        if isinstance(a, SymTuple) and isinstance(b, SymTuple):
            if a.tag != b.tag or len(a.items) != len(b.items):
                return False
            r = ops.py_eq(it, a.nrest, b.nrest)
            for x, y in zip(a.items, b.items):
                r = ops.bool_and(r, deep_same(it, x, y))
            return r
        return False
    if a is None or b is None:
        return a is b
    if type(a) is bool or type(b) is bool:
        if not isinstance(a, (bool, SBool)) or not isinstance(
                b, (bool, SBool)):
            return False
    r = ops.py_eq(it, a, b)
    if isinstance(r, (bool, SBool)):
        return r
    return ops.truthy(it, r)

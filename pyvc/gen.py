"""Generators: run eagerly, collecting yields (for generator functions whose
body is within the subset and finite on the given arguments)."""
import ast

from .core import Unsupported
from . import interp as I


class _Yielded(Exception):
    pass


def run_generator(it, g):
    f = g.func
    out = []
    loc = it.bind_args(f, g.args, g.kwargs)
    if f._locals is None:
        f._locals = set(loc) | I._assigned_names(f.node)
    fr = I.Frame(f, loc, f.closure, f.module, f._locals)
    fr.yield_sink = out
    it.frames.append(fr)
    old = getattr(it, '_yield_sink', None)
    it._yield_sink = out
    try:
        try:
            it.exec_block(f.node.body, fr)
        except I._Return:
            pass
    finally:
        it._yield_sink = old
        it.frames.pop()
    return out


def ex_Yield(self, e, fr):
    cb = getattr(self, '_yield_cb', None)
    if cb is not None and fr.func is not None and \
            getattr(fr.func, 'is_contextmanager', False):
        return cb(None if e.value is None else self.eval(e.value, fr))
    sink = getattr(self, '_yield_sink', None)
    if sink is None:
        raise Unsupported('yield outside a generator run')
    sink.append(None if e.value is None else self.eval(e.value, fr))
    if len(sink) > 100000:
        raise Unsupported('unbounded generator')
    return None


I.Interp.ex_Yield = ex_Yield

"""Generators.

* Lazy (default): the generator body runs in its own host thread that is
  handed control only while the consumer waits in next(); exactly one of the
  two runs at any time, so the shared interpreter state needs no locking.
  This gives Python's interleaving (a consumer that stops early leaves the
  generator suspended at its yield).
* contextlib.contextmanager generators are handled by the `with` rule in
  interp.py (the with-block runs at the yield).
"""
import threading

from .core import Unsupported, PyRaise, PathEnd, EngineError
from . import interp as I


class _Close(BaseException):
    pass


class GenRunner:
    def __init__(self, it, g):
        self.it = it
        self.g = g
        self.started = False
        self.finished = False
        self.to_gen = threading.Semaphore(0)
        self.to_consumer = threading.Semaphore(0)
        self.outcome = None        # ('yield', v) | ('done',) | ('raise', exc)
        self.closing = False
        self.thread = None
        self.frames = []
        self.exc_stack = []

    def _body(self):
        it = self.it
        f = self.g.func
        self.to_gen.acquire()
        try:
            if self.closing:
                raise _Close()
            loc = it.bind_args(f, self.g.args, self.g.kwargs)
            if f._locals is None:
                f._locals = set(loc) | I._assigned_names(f.node)
            fr = I.Frame(f, loc, f.closure, f.module, f._locals)
            fr.gen_runner = self
            it.frames.append(fr)
            try:
                it.exec_block(f.node.body, fr)
            except I._Return:
                pass
            self.outcome = ('done',)
        except _Close:
            self.outcome = ('done',)
        except BaseException as e:      # PyRaise / EngineError / crash
            self.outcome = ('raise', e)
        self.finished = True
        self.to_consumer.release()

    def at_yield(self, value):
        """Called in the generator thread."""
        self.outcome = ('yield', value)
        self.to_consumer.release()
        self.to_gen.acquire()
        if self.closing:
            raise _Close()
        return None

    def next(self):
        it = self.it
        if self.finished:
            it.throw(StopIteration)
        if not self.started:
            self.started = True
            self.thread = threading.Thread(target=self._body, daemon=True)
            self.thread.start()
            it.live_generators.append(self)
        # hand the interpreter over
        saved = (it.frames, it.exc_stack, getattr(it, '_cur_gen', None))
        it.frames, it.exc_stack = self.frames, self.exc_stack
        it._cur_gen = self
        self.to_gen.release()
        self.to_consumer.acquire()
        self.frames, self.exc_stack = it.frames, it.exc_stack
        it.frames, it.exc_stack, it._cur_gen = saved
        out = self.outcome
        if out[0] == 'yield':
            return out[1]
        if out[0] == 'done':
            it.throw(StopIteration)
        raise out[1]

    def close(self):
        if self.started and not self.finished:
            self.closing = True
            self.to_gen.release()
            self.to_consumer.acquire()


def ex_Yield(self, e, fr):
    cb = getattr(self, '_yield_cb', None)
    if cb is not None and fr.func is not None and \
            getattr(fr.func, 'is_contextmanager', False):
        return cb(None if e.value is None else self.eval(e.value, fr))
    runner = getattr(self, '_cur_gen', None)
    if runner is None:
        raise Unsupported('yield outside a generator run')
    return runner.at_yield(None if e.value is None
                           else self.eval(e.value, fr))


I.Interp.ex_Yield = ex_Yield


def run_generator(it, g):
    """All items (used when a generator is consumed by list()/sorted()...)."""
    r = runner_of(it, g)
    out = []
    while True:
        try:
            out.append(r.next())
        except PyRaise as e:
            if any(c.host is StopIteration for c in e.exc.cls.mro):
                return out
            raise
        if len(out) > 100000:
            raise Unsupported('unbounded generator')


def runner_of(it, g):
    r = getattr(g, 'runner', None)
    if r is None:
        r = g.runner = GenRunner(it, g)
    return r


def lazy_items(it, g):
    """Host generator over the items (for `for` loops)."""
    r = runner_of(it, g)
    try:
        while True:
            try:
                v = r.next()
            except PyRaise as e:
                if any(c.host is StopIteration for c in e.exc.cls.mro):
                    return
                raise
            yield v
    finally:
        r.close()

"""pyvc models of the standard-library modules used by the verified code."""
import ast
import math as _math
import struct as _struct

import z3

from .core import (Unsupported, PyRaise, SInt, SReal, SBool, SBytes, SStr,
                   Opaque, Obj, PySet, mk_int, mk_bool, mk_real, zint, zreal,
                   zbool, is_symbolic)
from . import ops
from .ops import OpaqueStr


def install(it):
    from . import interp as I

    def module(name):
        def deco(factory):
            it.module_models[name] = factory
            return factory
        return deco

    def B(name, fn):
        return I.Builtin(name, fn)

    # ---------------- struct
    @module('struct')
    def _struct_mod(it):
        m = I.ModuleVal('struct')
        m.ns['error'] = it.exc_class(_struct.error)
        m.ns['unpack'] = B('struct.unpack',
                           lambda it, a, kw: struct_unpack(it, a[0], a[1]))
        m.ns['calcsize'] = B('struct.calcsize',
                             lambda it, a, kw: it.host_call(
                                 _struct.calcsize, a[0]))
        m.ns['pack'] = B('struct.pack', lambda it, a, kw: struct_pack(
            it, a[0], a[1:]))

        def unpack_from(it, a, kw):
            fmt, buf = a[0], a[1]
            off = a[2] if len(a) > 2 else kw.get('offset', 0)
            return struct_unpack_from(it, fmt, buf, off)
        m.ns['unpack_from'] = B('struct.unpack_from', unpack_from)
        # struct.Struct(fmt): a precompiled format
        scls = I.ClassVal('Struct', [], {}, m)

        def s_init(it, a, kw):
            a[0].attrs['format'] = a[1]
            a[0].attrs['size'] = it.host_call(_struct.calcsize, a[1])
            return None

        def meth(name, fn):
            b = B('Struct.' + name, fn)
            b.is_method = True
            return b
        scls.ns['__init__'] = meth('__init__', s_init)
        scls.ns['unpack'] = meth('unpack', lambda it, a, kw: struct_unpack(
            it, a[0].attrs['format'], a[1]))
        scls.ns['unpack_from'] = meth(
            'unpack_from', lambda it, a, kw: struct_unpack_from(
                it, a[0].attrs['format'], a[1],
                a[2] if len(a) > 2 else kw.get('offset', 0)))
        scls.ns['pack'] = meth('pack', lambda it, a, kw: struct_pack(
            it, a[0].attrs['format'], a[1:]))
        m.ns['Struct'] = scls
        return m

    # ---------------- logging
    @module('logging')
    def _logging(it):
        m = I.ModuleVal('logging')
        logger_cls = I.ClassVal('Logger', [], {}, m)

        def log_method(name):
            def fn(it, a, kw):
                # arguments were evaluated by the caller (an argument
                # expression that raises is still seen); check %-arity
                args = a[1:]
                if name == 'log':
                    args = args[1:]
                if args and isinstance(args[0], str):
                    check_percent(it, args[0], tuple(args[1:]), lazy=True)
                it.log_events.append((name, args))
                return None
            f = B('Logger.' + name, fn)
            f.is_method = True
            return f
        for nm in ('debug', 'info', 'warning', 'error', 'exception',
                   'critical', 'log', 'warn'):
            logger_cls.ns[nm] = log_method(nm)
        isen = B('isEnabledFor', lambda it, a, kw: False)
        isen.is_method = True
        logger_cls.ns['isEnabledFor'] = isen
        m.logger_cls = logger_cls

        def get_logger(it, a, kw):
            return it.new_obj(logger_cls)
        m.ns['getLogger'] = B('logging.getLogger', get_logger)
        for k in ('DEBUG', 'INFO', 'WARNING', 'ERROR', 'CRITICAL'):
            m.ns[k] = getattr(__import__('logging'), k)
        return m
    it.log_events = []

    # ---------------- abc
    @module('abc')
    def _abc(it):
        m = I.ModuleVal('abc')
        m.ns['ABC'] = I.ClassVal('ABC', [], {}, m)
        m.ns['abstractmethod'] = B('abstractmethod', lambda it, a, kw: a[0])
        m.ns['ABCMeta'] = Opaque('abc.ABCMeta')
        return m

    # ---------------- oslo_utils._i18n
    @module('oslo_utils._i18n')
    def _i18n(it):
        m = I.ModuleVal('oslo_utils._i18n')
        m.ns['_'] = B('_', lambda it, a, kw: a[0])
        return m

    # ---------------- time
    @module('time')
    def _time(it):
        m = I.ModuleVal('time')

        def clock(name):
            def fn(it, a, kw):
                hook = it.clock_hook
                if hook is None:
                    raise Unsupported('time.%s() without a clock model'
                                      % name)
                return it.call(hook, [], {})
            return B('time.' + name, fn)
        m.ns['monotonic'] = clock('monotonic')
        m.ns['time'] = clock('time')
        m.ns['sleep'] = B('time.sleep', lambda it, a, kw: None)
        return m
    it.clock_hook = None

    # ---------------- math
    @module('math')
    def _math_mod(it):
        m = I.ModuleVal('math')

        def ceil(it, a, kw):
            v = a[0]
            if isinstance(v, (int, float)):
                return it.host_call(_math.ceil, v)
            if isinstance(v, SInt):
                return v
            if isinstance(v, SReal):
                f = z3.ToInt(v.e)
                return mk_int(z3.If(z3.ToReal(f) == v.e, f, f + 1))
            raise Unsupported('math.ceil(%r)' % (v,))

        def floor(it, a, kw):
            v = a[0]
            if isinstance(v, (int, float)):
                return it.host_call(_math.floor, v)
            if isinstance(v, SInt):
                return v
            if isinstance(v, SReal):
                return mk_int(z3.ToInt(v.e))
            raise Unsupported('math.floor(%r)' % (v,))
        m.ns['ceil'] = B('math.ceil', ceil)
        m.ns['floor'] = B('math.floor', floor)
        m.ns['inf'] = _math.inf
        return m

    # ---------------- functools
    @module('functools')
    def _functools(it):
        m = I.ModuleVal('functools')

        def reduce(it, a, kw):
            f = a[0]
            items = it.iterate(a[1])
            if len(a) > 2:
                acc = a[2]
            else:
                if not items:
                    it.throw(TypeError, 'reduce() of empty iterable with no '
                             'initial value')
                acc, items = items[0], items[1:]
            for x in items:
                acc = it.call(f, [acc, x], {})
            return acc
        m.ns['reduce'] = B('functools.reduce', reduce)

        def wraps(it, a, kw):
            return B('wraps-decorator', lambda it, b, kw2: b[0])
        m.ns['wraps'] = B('functools.wraps', wraps)

        def partial(it, a, kw):
            f, pre = a[0], list(a[1:])
            prekw = dict(kw)

            def call(it, b, kw2):
                k = dict(prekw)
                k.update(kw2)
                return it.call(f, pre + list(b), k)
            return B('partial', call)
        m.ns['partial'] = B('functools.partial', partial)
        m.ns['WRAPPER_ASSIGNMENTS'] = ('__module__', '__name__',
                                       '__qualname__', '__doc__')

        def update_wrapper(it, a, kw):
            wrapper, wrapped = a[0], a[1]
            for n in ('__module__', '__name__', '__qualname__', '__doc__'):
                try:
                    it.setattr(wrapper, n, it.getattr(wrapped, n))
                except PyRaise:
                    pass
            it.setattr(wrapper, '__wrapped__', wrapped)
            return wrapper
        m.ns['update_wrapper'] = B('functools.update_wrapper',
                                   update_wrapper)
        return m

    # ---------------- contextlib
    @module('contextlib')
    def _contextlib(it):
        m = I.ModuleVal('contextlib')

        def contextmanager(it, a, kw):
            f = a[0]
            if not isinstance(f, I.FuncVal):
                raise Unsupported('contextmanager on %r' % (f,))
            f.is_contextmanager = True
            f.is_generator = False      # calls are intercepted below

            def make(it, b, kw2):
                return I.GeneratorCM(f, list(b), dict(kw2))
            w = B('contextmanager:' + f.qualname, make)
            w.wrapped = f
            return w
        m.ns['contextmanager'] = B('contextlib.contextmanager',
                                   contextmanager)
        return m

    # ---------------- traceback
    @module('traceback')
    def _traceback(it):
        m = I.ModuleVal('traceback')
        m.ns['format_exception'] = B(
            'traceback.format_exception',
            lambda it, a, kw: [OpaqueStr('traceback', tuple(a))])
        m.ns['format_exc'] = B('traceback.format_exc',
                               lambda it, a, kw: OpaqueStr('traceback', ()))
        return m

    # ---------------- operator
    @module('operator')
    def _operator(it):
        m = I.ModuleVal('operator')
        table = {'eq': ast.Eq, 'ne': ast.NotEq, 'lt': ast.Lt, 'le': ast.LtE,
                 'gt': ast.Gt, 'ge': ast.GtE}
        for nm, op in table.items():
            m.ns[nm] = B('operator.' + nm, lambda it, a, kw, _op=op:
                         ops.compare(it, _op, a[0], a[1]))
        m.ns['contains'] = B('operator.contains', lambda it, a, kw:
                             ops.contains(it, a[0], a[1]))
        return m

    # ---------------- errno / os (constants only; calls via stubs)
    @module('errno')
    def _errno(it):
        import errno as _e
        m = I.ModuleVal('errno')
        for k in dir(_e):
            if k.isupper():
                m.ns[k] = getattr(_e, k)
        return m

    # ---------------- sys
    @module('sys')
    def _sys(it):
        m = I.ModuleVal('sys')

        def exc_info(it, a, kw):
            if not it.exc_stack:
                return (None, None, None)
            e = it.exc_stack[-1]
            return (e.cls, e, e.attrs.get('__traceback__'))
        m.ns['exc_info'] = B('sys.exc_info', exc_info)

        def sys_exit(it, a, kw):
            o = it.make_exc(SystemExit, *a)
            o.attrs['code'] = a[0] if a else None
            raise PyRaise(o)
        m.ns['exit'] = B('sys.exit', sys_exit)
        m.ns['maxsize'] = __import__('sys').maxsize
        from .models import HostNamespace
        m.ns['stdin'] = HostNamespace('stdin', {'encoding': 'utf-8'})
        m.ns['stderr'] = HostNamespace('stderr', {})
        m.ns['stdout'] = HostNamespace('stdout', {})
        m.ns['argv'] = ['prog']
        m.ns['getdefaultencoding'] = B('sys.getdefaultencoding',
                                       lambda it, a, kw: 'utf-8')
        return m

    # ---------------- re
    @module('re')
    def _re(it):
        import re as _re_mod
        m = I.ModuleVal('re')
        for k in ('DOTALL', 'IGNORECASE', 'MULTILINE', 'VERBOSE', 'ASCII',
                  'UNICODE', 'I', 'S', 'M', 'X', 'A', 'U'):
            m.ns[k] = int(getattr(_re_mod, k))

        def compile_(it, a, kw):
            pat = a[0]
            flags = a[1] if len(a) > 1 else kw.get('flags', 0)
            if isinstance(pat, PatternVal):
                return pat
            if not isinstance(pat, str) or not isinstance(flags, int):
                raise Unsupported('re.compile of symbolic pattern')
            it.host_call(_re_mod.compile, pat, flags)
            return PatternVal(pat, flags)
        m.ns['compile'] = B('re.compile', compile_)

        def modfn(name):
            def fn(it, a, kw):
                pat = compile_(it, [a[0]], {'flags': kw.get('flags', 0)})
                return pattern_method(it, pat, name, a[1:], kw)
            return B('re.' + name, fn)
        for nm in ('match', 'search', 'fullmatch', 'sub', 'findall', 'split'):
            m.ns[nm] = modfn(nm)
        m.ns['escape'] = B('re.escape', lambda it, a, kw: it.host_call(
            _re_mod.escape, a[0]))
        m.ns['error'] = it.exc_class(_re_mod.error)
        return m

    # ---------------- oslo_utils.units is interpreted from /repo
    # ---------------- collections.abc
    @module('collections.abc')
    def _cabc(it):
        m = I.ModuleVal('collections.abc')
        mapping = I.ClassVal('Mapping', [], {}, m)
        mapping.instancecheck = lambda it, v: isinstance(v, dict)
        m.ns['Mapping'] = mapping
        return m

    @module('collections')
    def _collections(it):
        m = I.ModuleVal('collections')
        m.ns['abc'] = it.import_module('collections.abc')
        return m

    @module('itertools')
    def _itertools(it):
        # everything comes from pyvc/prelude/itertools.py
        return I.ModuleVal('itertools')


# --------------------------------------------------------------------------
# re


class PatternVal:
    """A compiled pattern (pattern text + flags are concrete)."""

    def __init__(self, pattern, flags):
        self.pattern = pattern
        self.flags = flags

    def __repr__(self):
        return 'PatternVal(%r)' % self.pattern


class HostValue:
    """Opaque wrapper of a host object (e.g. re.Match) produced by a model on
    concrete inputs; its methods run natively on concrete arguments."""

    def __init__(self, obj):
        self.obj = obj


class OpaqueMatch:
    """A successful match on a symbolic subject: truthy, nothing else."""

    def __init__(self, pattern):
        self.pattern = pattern

    def __repr__(self):
        return '<match of %r>' % self.pattern


def wrap_host(v):
    if v is None or isinstance(v, (int, str, bytes, float, bool)):
        return v
    if isinstance(v, (list, tuple)):
        return type(v)(wrap_host(x) for x in v)
    if isinstance(v, dict):
        return {k: wrap_host(x) for k, x in v.items()}
    return HostValue(v)


def pattern_method(it, pat, name, args, kw):
    import re as _re_mod
    hook = getattr(it, 'regex_hook', None)
    if hook is not None:
        r = hook(it, pat, name, args, kw)
        if r is not NotImplemented:
            return r
    if all(isinstance(a, (str, int)) for a in args):
        rx = _re_mod.compile(pat.pattern, pat.flags)
        return wrap_host(it.host_call(getattr(rx, name), *args, **kw))
    if name in ('match', 'fullmatch', 'search') and len(args) == 1 and \
            not kw and isinstance(args[0], SStr):
        # whether the pattern matches is decided through its regular
        # language (regex.py, the CPython parse tree of the real pattern);
        # the match object itself is opaque: only its truth is modelled
        from . import regex
        import re as _re
        mode = {'match': 'match', 'fullmatch': 'full',
                'search': 'search'}[name]
        try:
            lang = regex.Lang(pat.pattern, int(pat.flags) & ~int(_re.UNICODE),
                              mode)
            member = z3.InRe(args[0].e, lang.z3())
        except Unsupported:
            raise
        except Exception as e:      # construct outside the translator
            raise Unsupported('regex %r not translatable: %s' % (
                pat.pattern, e))
        if it.truth(mk_bool(member)):
            return OpaqueMatch(pat.pattern)
        return None
    raise Unsupported('regex %s on a symbolic string (pattern %r)'
                      % (name, pat.pattern[:40]))


# --------------------------------------------------------------------------
# struct


_CODES = {
    'x': (1, None), 'c': (1, 'c'), 'b': (1, True), 'B': (1, False),
    '?': (1, '?'), 'h': (2, True), 'H': (2, False), 'i': (4, True),
    'I': (4, False), 'l': (4, True), 'L': (4, False), 'q': (8, True),
    'Q': (8, False),
}


def parse_struct_fmt(it, fmt):
    if not isinstance(fmt, str):
        raise Unsupported('struct format %r' % (fmt,))
    order = '@'
    s = fmt
    if s and s[0] in '@=<>!':
        order = s[0]
        s = s[1:]
    if order in '@':
        raise Unsupported('struct native alignment format %r' % fmt)
    little = order == '<'
    fields = []   # (offset, size, kind)
    off = 0
    num = ''
    for ch in s:
        if ch.isdigit():
            num += ch
            continue
        if ch.isspace():
            continue
        n = int(num) if num else 1
        num = ''
        if ch == 's':
            fields.append((off, n, 's'))
            off += n
            continue
        if ch not in _CODES:
            raise Unsupported('struct code %r' % ch)
        size, kind = _CODES[ch]
        for _ in range(n):
            if kind is not None:
                fields.append((off, size, kind))
            off += size
    if off != _struct.calcsize(fmt):
        raise Unsupported('struct size model mismatch for %r' % fmt)
    return little, fields, off


def struct_unpack(it, fmt, buf):
    if isinstance(buf, (bytes, bytearray)) and isinstance(fmt, str):
        return it.host_call(_struct.unpack, fmt, bytes(buf))
    if not isinstance(buf, SBytes):
        it.throw(TypeError, "a bytes-like object is required")
    little, fields, size = parse_struct_fmt(it, fmt)
    n = buf.length
    ok = (n == size) if isinstance(n, int) else mk_bool(n == size)
    if not it.truth(ok):
        it.throw(_struct.error, 'unpack requires a buffer of %d bytes'
                 % size)
    out = []
    for off, sz, kind in fields:
        if kind == 's':
            out.append(ops.bytes_slice(it, buf, slice(off, off + sz)))
            continue
        if kind == 'c':
            out.append(ops.bytes_slice(it, buf, slice(off, off + 1)))
            continue
        terms = []
        for i in range(sz):
            w = i if little else sz - 1 - i
            terms.append(buf.at(off + i) * (1 << (8 * w)))
        v = z3.Sum(terms) if len(terms) > 1 else terms[0]
        if kind == '?':
            out.append(mk_bool(v != 0))
        elif kind is True:
            out.append(mk_int(z3.If(v >= (1 << (8 * sz - 1)),
                                    v - (1 << (8 * sz)), v)))
        else:
            out.append(mk_int(v))
    return tuple(out)


def struct_unpack_from(it, fmt, buf, offset=0):
    """struct.unpack_from: the buffer may be longer than the format."""
    size = _struct.calcsize(fmt)
    if isinstance(buf, (bytes, bytearray)) and not is_symbolic(offset):
        return it.host_call(_struct.unpack_from, fmt, bytes(buf), offset)
    if not isinstance(buf, (SBytes, bytes, bytearray)):
        it.throw(TypeError, "a bytes-like object is required")
    buf = ops.as_sbytes(buf)
    n = buf.zlen()
    offset = offset if isinstance(offset, int) else zint(offset)
    if not isinstance(offset, int) and not it.path.implied(offset >= 0):
        raise Unsupported('unpack_from with a possibly negative offset')
    if isinstance(offset, int) and offset < 0:
        raise Unsupported('unpack_from with a negative offset')
    if not it.truth(mk_bool(n - offset >= size)):
        it.throw(_struct.error, 'unpack_from requires a buffer of at least '
                 '%d bytes for unpacking at the given offset' % size)
    lo = offset if isinstance(offset, int) else SInt(offset)
    hi = offset + size if isinstance(offset, int) else SInt(offset + size)
    return struct_unpack(it, fmt, ops.bytes_slice(it, buf, slice(lo, hi)))


def struct_pack(it, fmt, vals):
    if not any(is_symbolic(v) for v in vals):
        return it.host_call(_struct.pack, fmt, *vals)
    raise Unsupported('struct.pack of symbolic values')


# --------------------------------------------------------------------------
# %-formatting arity check (messages for loggers and exceptions)


def check_percent(it, fmt, args, lazy=False):
    """Model of `fmt % args` for opaque message strings: raises the
    TypeError / ValueError Python would raise for an arity or conversion
    mismatch; returns an OpaqueStr otherwise."""
    import re
    if isinstance(args, tuple):
        seq = list(args)
        mapping = None
    elif isinstance(args, dict):
        seq = None
        mapping = args
    else:
        seq = [args]
        mapping = None
    if lazy and seq is not None and len(seq) == 1 and isinstance(
            seq[0], dict) and re.search(r'%\(', fmt):
        mapping, seq = seq[0], None
    specs = re.findall(r'%(?:\((\w+)\))?[-#0 +]*(\*|\d+)?(?:\.(\*|\d+))?'
                       r'([diouxXeEfFgGcrsa%])', fmt)
    need = 0
    for key, width, prec, conv in specs:
        if conv == '%':
            continue
        if key:
            if mapping is None:
                it.throw(TypeError, 'format requires a mapping')
            if key not in mapping:
                it.throw(KeyError, key)
            v = mapping[key]
        else:
            if seq is None:
                it.throw(TypeError, 'not enough arguments for format string')
            if need >= len(seq):
                it.throw(TypeError, 'not enough arguments for format string')
            v = seq[need]
            need += 1
        if conv in 'diouxXeEfFgG':
            if not isinstance(v, (int, float, SInt, SReal, SBool)):
                if isinstance(v, (Opaque,)):
                    raise Unsupported('%%%s of opaque value' % conv)
                it.throw(TypeError, '%%%s format: a real number is required,'
                         ' not %s' % (conv, ops._tn(v)))
            if conv in 'diouxX' and isinstance(v, (float, SReal)) and \
                    conv in 'xXo':
                it.throw(TypeError, '%%%s format: an integer is required'
                         % conv)
    if seq is not None and need < len(seq) and not lazy:
        it.throw(TypeError, 'not all arguments converted during string '
                 'formatting')
    return OpaqueStr('percent', (fmt, args))

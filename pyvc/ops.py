"""pyvc operators: Python's data model on host-concrete and symbolic values.

Encoding choices (what of Python's semantics is assumed) are the ones listed
in DESIGN.md section 2.3: ints are mathematical (exact: Python ints are
unbounded), floats are reals (A-FLOAT), bytes are index functions into ghost
arrays with cells in 0..255, `//` and `%` are floor division.
"""
import ast

import z3

from .core import (Unsupported, PyRaise, SInt, SReal, SBool, SBytes, SStr,
                   Opaque, Obj, PySet, mk_int, mk_bool, mk_real, zint, zreal,
                   zbool, is_symbolic)

MISSING = object()

NUM = (int, float, SInt, SReal, SBool)     # bool is an int


class OpaqueStr:
    """A str whose content is not tracked (messages for loggers/exceptions)."""

    def __init__(self, kind, parts=()):
        self.kind = kind
        self.parts = parts

    def __repr__(self):
        return 'OpaqueStr(%s)' % self.kind


class SymRange:
    def __init__(self, lo, hi):
        self.lo = lo
        self.hi = hi


class LazyGen:
    """Generator expression: evaluated when iterated."""

    def __init__(self, interp, node, fr):
        self.interp = interp
        self.node = node
        self.fr = fr

    def items(self):
        out = []
        it = self.interp
        it._comp(self.node.generators, 0, self.fr,
                 lambda f: out.append(it.eval(self.node.elt, f)))
        return out

    def lazy_items(self):
        """Yield items one at a time (so that all()/any() short-circuit)."""
        # evaluation order inside a generator expression is demand driven;
        # we emulate with an eager per-item evaluation via a host generator.
        it = self.interp
        node = self.node
        fr = self.fr
        cf = it.comp_frame(fr)

        def rec(i):
            if i == len(node.generators):
                yield it.eval(node.elt, cf)
                return
            g = node.generators[i]
            src = it.eval(g.iter, cf if i else fr)
            for x in it.iterate(src, lazy=True):
                it.assign(g.target, x, cf)
                ok = True
                for c in g.ifs:
                    if not it.truth(it.eval(c, cf)):
                        ok = False
                        break
                if ok:
                    yield from rec(i + 1)
        return rec(0)


# --------------------------------------------------------------------------
# byte helpers


def const_bytes(b):
    """Host bytes -> SBytes."""
    n = len(b)
    if n == 0:
        return SBytes(lambda i: z3.IntVal(0), 0)
    if len(set(b)) == 1:
        c = b[0]
        return SBytes(lambda i: z3.IntVal(c), n, tag=('const', b))

    def at(i):
        if isinstance(i, int):
            return z3.IntVal(b[i]) if 0 <= i < n else z3.IntVal(0)
        i = z3.simplify(i)
        if z3.is_int_value(i):
            k = i.as_long()
            return z3.IntVal(b[k]) if 0 <= k < n else z3.IntVal(0)
        e = z3.IntVal(b[n - 1])
        for k in range(n - 2, -1, -1):
            e = z3.If(i == k, z3.IntVal(b[k]), e)
        return e
    return SBytes(at, n, tag=('const', b))


def as_sbytes(v):
    if isinstance(v, SBytes):
        return v
    if isinstance(v, (bytes, bytearray)):
        return const_bytes(bytes(v))
    raise Unsupported('not bytes: %r' % (v,))


def base_bytes(interp, name, arr, length):
    path = interp.path

    def at(i):
        t = arr[i if not isinstance(i, int) else z3.IntVal(i)]
        interp.path.fact(z3.And(t >= 0, t <= 255))
        return t
    return SBytes(at, length, tag=('base', name))


def bytes_concrete(interp, b):
    """SBytes -> host bytes if every cell and the length are numerals."""
    if isinstance(b, (bytes, bytearray)):
        return bytes(b)
    if not isinstance(b.length, int):
        return None
    if b.tag and b.tag[0] == 'const' and len(b.tag[1]) == b.length:
        return b.tag[1]
    if b.length > 4096:
        return None
    out = bytearray()
    for i in range(b.length):
        c = z3.simplify(b.at(i))
        if not z3.is_int_value(c):
            return None
        out.append(c.as_long())
    return bytes(out)


def clamp_index(i, n, default):
    """Python slice-bound normalisation as a z3 Int expression."""
    if i is None:
        return default
    ie = zint(i)
    return z3.If(ie < 0, z3.If(n + ie < 0, z3.IntVal(0), n + ie),
                 z3.If(ie > n, n, ie))


def decide(path, c):
    """True / False when the path condition decides c, else None."""
    c = z3.simplify(c)
    if z3.is_true(c):
        return True
    if z3.is_false(c):
        return False
    if path is not None and not path.binder_depth:
        if path.implied(c):
            return True
        if path.implied(z3.Not(c)):
            return False
    return None


def ctx_if(path, c, a, b):
    """If(c, a, b), resolved with the path condition where it decides c."""
    d = decide(path, c)
    if d is True:
        return a
    if d is False:
        return b
    return z3.If(c, a, b)


def smart_clamp(interp, i, n, default):
    """clamp_index with the path condition used to drop decided branches
    (keeps index terms small; purely an optimisation, same value)."""
    if i is None:
        return default
    p = interp.path
    ie = z3.simplify(zint(i))
    d = decide(p, ie < 0)
    if d is True:
        return z3.simplify(ctx_if(p, n + ie < 0, z3.IntVal(0), n + ie))
    if d is False:
        return z3.simplify(ctx_if(p, ie > n, n, ie))
    return z3.simplify(clamp_index(i, n, default))


def bytes_slice(interp, b, sl):
    if sl.step is not None and sl.step != 1:
        raise Unsupported('bytes slice with step')
    if isinstance(b, (bytes, bytearray)) and not is_symbolic(sl.start) \
            and not is_symbolic(sl.stop):
        return b[sl]
    b = as_sbytes(b)
    n = b.zlen()
    lo = smart_clamp(interp, sl.start, n, z3.IntVal(0))
    hi = smart_clamp(interp, sl.stop, n, n)
    ln = z3.simplify(ctx_if(interp.path, hi > lo, hi - lo, z3.IntVal(0)))
    at0 = b.at
    # provenance: a slice of a slice of X is a slice of X (tag
    # ('slice', X, offset)); adjacent slices are merged again by
    # bytes_concat, so re-assembled stream windows stay plain windows
    bt = getattr(b, 'tag', None)
    if bt and bt[0] == 'slice':
        root, off0 = bt[1], bt[2]
    else:
        root, off0 = b, z3.IntVal(0)
    off = z3.simplify(off0 + lo)
    if z3.is_int_value(lo) and lo.as_long() == 0:
        r = SBytes(at0, ln, tag=('slice', root, off))
    else:
        r = SBytes(lambda i: at0(lo + i), ln, tag=('slice', root, off))
    c = bytes_concrete(interp, r) if isinstance(r.length, int) and \
        r.length <= 64 else None
    return c if c is not None else r


def bytes_concat(interp, a, b):
    if isinstance(a, (bytes, bytearray)) and isinstance(b, (bytes,
                                                          bytearray)):
        return bytes(a) + bytes(b)
    a = as_sbytes(a)
    b = as_sbytes(b)
    if isinstance(a.length, int) and a.length == 0:
        return b
    if isinstance(b.length, int) and b.length == 0:
        return a
    la = a.zlen()
    aat, bat = a.at, b.at
    ta, tb = getattr(a, 'tag', None), getattr(b, 'tag', None)
    if ta and tb and ta[0] == 'slice' and tb[0] == 'slice' \
            and ta[1] is tb[1]:
        # X[u:v] + X[v:w] == X[u:w]
        try:
            adjacent = interp.path.implied(ta[2] + la == tb[2])
        except Exception:
            adjacent = False
        if adjacent:
            root, off = ta[1], ta[2]
            rat = root.at
            if z3.is_int_value(off) and off.as_long() == 0:
                return SBytes(rat, z3.simplify(la + b.zlen()),
                              tag=('slice', root, off))
            return SBytes(lambda i: rat(off + i),
                          z3.simplify(la + b.zlen()),
                          tag=('slice', root, off))

    def at(i):
        if isinstance(i, int):
            i = z3.IntVal(i)
        c = z3.simplify(i < la)
        if z3.is_true(c):
            return aat(i)
        if z3.is_false(c):
            return bat(i - la)
        return z3.If(c, aat(i), bat(i - la))
    return SBytes(at, la + b.zlen())


def bytes_eq(interp, a, b):
    """a == b for bytes values -> host bool or SBool."""
    if isinstance(a, (bytes, bytearray)) and isinstance(b, (bytes,
                                                          bytearray)):
        return bytes(a) == bytes(b)
    a = as_sbytes(a)
    b = as_sbytes(b)
    la, lb = a.length, b.length
    ta, tb = getattr(a, 'tag', None), getattr(b, 'tag', None)
    if ta and tb and ta[0] == 'slice' and tb[0] == 'slice' \
            and ta[1] is tb[1] and not (isinstance(la, int)
                                        and isinstance(lb, int)
                                        and la <= 64):
        # two windows of the same value: equal lengths and (empty, or the
        # same offset, or - the general case - equal contents)
        p = interp.path
        k = z3.Int('k!%d' % next(p.fresh))
        p.binder_depth += 1
        try:
            body = a.at(k) == b.at(k)
        finally:
            p.binder_depth -= 1
        q = z3.ForAll([k], z3.Implies(z3.And(k >= 0, k < a.zlen()), body))
        return mk_bool(z3.And(a.zlen() == b.zlen(),
                              z3.Or(a.zlen() <= 0, ta[2] == tb[2], q)))
    if isinstance(la, int) and isinstance(lb, int):
        if la != lb:
            return False
        if la <= 2048:
            return mk_bool(z3.And([a.at(i) == b.at(i) for i in range(la)]
                                  + [z3.BoolVal(True)]))
    # one side of known small length: expand under the length equation
    for x, y in ((a, b), (b, a)):
        if isinstance(x.length, int) and x.length <= 2048:
            return mk_bool(z3.And([y.zlen() == x.length] +
                                  [x.at(i) == y.at(i)
                                   for i in range(x.length)]))
    p = interp.path
    k = z3.Int('k!%d' % next(p.fresh))
    p.binder_depth += 1
    try:
        body = a.at(k) == b.at(k)
    finally:
        p.binder_depth -= 1
    q = z3.ForAll([k], z3.Implies(z3.And(k >= 0, k < a.zlen()), body))
    return mk_bool(z3.And(a.zlen() == b.zlen(), q))


def bytes_startswith(interp, b, prefix):
    if isinstance(prefix, tuple):
        r = False
        for pfx in prefix:
            r = bool_or(r, bytes_startswith(interp, b, pfx))
        return r
    pc = bytes_concrete(interp, prefix) if not isinstance(prefix, bytes) \
        else prefix
    if pc is None:
        raise Unsupported('startswith with symbolic prefix')
    if isinstance(b, (bytes, bytearray)):
        return bytes(b).startswith(pc)
    return mk_bool(z3.And([b.zlen() >= len(pc)] +
                          [b.at(i) == pc[i] for i in range(len(pc))]))


def bool_or(a, b):
    if isinstance(a, bool):
        return b if not a else True
    if isinstance(b, bool):
        return a if not b else True
    return mk_bool(z3.Or(a.e, b.e))


def bool_and(a, b):
    if isinstance(a, bool):
        return b if a else False
    if isinstance(b, bool):
        return a if b else False
    return mk_bool(z3.And(a.e, b.e))


def bool_not(a):
    if isinstance(a, bool):
        return not a
    return mk_bool(z3.Not(a.e))


# --------------------------------------------------------------------------
# truthiness


def truthy(interp, v):
    """-> host bool or SBool (no forking)."""
    if v is None:
        return False
    if isinstance(v, bool):
        return v
    if isinstance(v, SBool):
        return v
    if isinstance(v, SInt):
        return mk_bool(v.e != 0)
    if isinstance(v, SReal):
        return mk_bool(v.e != 0)
    if isinstance(v, SBytes):
        if isinstance(v.length, int):
            return v.length > 0
        return mk_bool(v.length > 0)
    if isinstance(v, SStr):
        return mk_bool(z3.Length(v.e) > 0)
    if isinstance(v, (int, float, str, bytes, tuple, list, dict, PySet,
                      bytearray)):
        return bool(v)
    if isinstance(v, SymTuple):
        return v.truthy()
    if isinstance(v, Obj):
        for nm in ('__bool__', '__len__'):
            m, _ = v.cls.lookup(nm)
            if m is not None:
                r = interp.call(m, [v], {})
                return truthy(interp, r)
        return True
    if isinstance(v, OpaqueStr):
        raise Unsupported('truthiness of opaque string')
    if isinstance(v, Opaque):
        raise Unsupported('truthiness of %r' % (v,))
    if isinstance(v, LazyGen):
        return True
    # functions, classes, modules, ...
    return True


class SymTuple:
    """A tuple with an unknown prefix (`rest` elements, count symbolic >= 0)
    followed by known items.  Supports exactly what StopWatch._splits needs."""

    def __init__(self, nrest, items, tag):
        self.nrest = nrest        # SInt / int: length of the unknown prefix
        self.items = tuple(items)
        self.tag = tag

    def truthy(self):
        if self.items:
            return True
        if isinstance(self.nrest, int):
            return self.nrest > 0
        return mk_bool(self.nrest.e > 0)

    def length(self):
        return mk_int(zint(self.nrest) + len(self.items))


# --------------------------------------------------------------------------
# arithmetic


def is_real(v):
    return isinstance(v, (float, SReal))


def is_num(v):
    return isinstance(v, NUM)


def py_floor_div(a, b):
    """floor(a / b) for z3 Ints with b != 0 (z3 div is Euclidean)."""
    q = a / b
    # Euclidean: a = b*q + r, 0 <= r < |b|.  floor differs when b < 0, r != 0
    return z3.If(z3.Or(b > 0, a % b == 0), q, q - 1) if not \
        z3.is_int_value(b) else (q if b.as_long() > 0 else
                                 z3.If(a % b == 0, q, q - 1))


def py_mod(a, b):
    return a - b * py_floor_div(a, b)


def bit_and_const(x, m):
    """x & m for z3 Int x >= 0 and host int m >= 0, in LIA: one div/mod term
    per maximal run of set bits in m."""
    terms = []
    k = 0
    while (m >> k):
        if (m >> k) & 1:
            a = k
            while (m >> k) & 1:
                k += 1
            width = k - a
            t = x / (1 << a) if a else x
            terms.append((t % (1 << width)) * (1 << a))
        else:
            k += 1
    if not terms:
        return z3.IntVal(0)
    return z3.Sum(terms) if len(terms) > 1 else terms[0]


def bitop(interp, op, a, b):
    """& | ^ on ints, one of them symbolic."""
    p = interp.path
    if isinstance(a, (SInt, SBool)) and isinstance(b, (SInt, SBool)):
        ae, be = zint(a), zint(b)
        for bits in (8, 16, 32, 64, 128):
            lim = z3.IntVal(1 << bits)
            if p.implied(z3.And(ae >= 0, ae < lim, be >= 0, be < lim)):
                x, y = z3.Int2BV(ae, bits), z3.Int2BV(be, bits)
                r = {ast.BitAnd: x & y, ast.BitOr: x | y,
                     ast.BitXor: x ^ y}[op]
                return mk_int(z3.BV2Int(r, False))
        raise Unsupported('bit operation on unbounded symbolic ints')
    if isinstance(b, (SInt, SBool)):
        a, b = b, a
    xe = zint(a)
    m = int(b)
    if not p.implied(xe >= 0):
        # negative symbolic operand: fall back to bit-vectors of 128 bits
        raise Unsupported('bit operation on possibly negative symbolic int')
    if op is ast.BitAnd:
        if m >= 0:
            return mk_int(bit_and_const(xe, m))
        # x & m with m < 0 (infinite leading ones) = x - (x & ~m)
        return mk_int(xe - bit_and_const(xe, ~m))
    if op is ast.BitOr:
        if m >= 0:
            return mk_int(xe + m - bit_and_const(xe, m))
        raise Unsupported('| with negative constant')
    if op is ast.BitXor:
        if m >= 0:
            return mk_int(xe + m - 2 * bit_and_const(xe, m))
        raise Unsupported('^ with negative constant')
    raise Unsupported('bit op')


def binop(interp, op, a, b, inplace=False):
    # ---- fully concrete: host semantics
    if not is_symbolic(a) and not is_symbolic(b) and \
            _plain(a) and _plain(b):
        return interp.host_call(_HOST_BIN[op], a, b)
    # ---- numbers
    if is_num(a) and is_num(b):
        return num_binop(interp, op, a, b)
    # ---- bytes
    if isinstance(a, (SBytes, bytes)) and isinstance(b, (SBytes, bytes)):
        if op is ast.Add:
            return bytes_concat(interp, a, b)
        raise Unsupported('bytes operator %s' % op.__name__)
    if isinstance(a, (SBytes, bytes)) and isinstance(b, (int, SInt)) and \
            op is ast.Mult:
        return bytes_repeat(interp, a, b)
    # ---- strings
    if isinstance(a, (str, SStr, OpaqueStr)) or isinstance(
            b, (SStr, OpaqueStr)):
        from . import strings
        return strings.str_binop(interp, op, a, b)
    # ---- containers with symbolic leaves
    if isinstance(a, tuple) and isinstance(b, tuple) and op is ast.Add:
        return a + b
    if isinstance(a, SymTuple) and isinstance(b, tuple) and op is ast.Add:
        return SymTuple(a.nrest, a.items + b, a.tag)
    if isinstance(a, list) and isinstance(b, list) and op is ast.Add:
        if inplace:
            a.extend(b)
            return a
        return a + b
    if isinstance(a, (list, tuple)) and isinstance(b, int) and \
            op is ast.Mult:
        return a * b
    if isinstance(a, PySet) and isinstance(b, PySet):
        if op is ast.Sub:
            return PySet(x for x in a if x not in b)
        if op is ast.BitOr:
            return PySet(list(a) + list(b))
        if op is ast.BitAnd:
            return PySet(x for x in a if x in b)
        if op is ast.BitXor:
            return PySet([x for x in a if x not in b] +
                         [x for x in b if x not in a])
    if isinstance(a, dict) and isinstance(b, dict) and op is ast.BitOr:
        d = dict(a)
        d.update(b)
        return d
    if isinstance(a, Obj):
        nm = _DUNDER.get(op)
        if nm:
            m, _ = a.cls.lookup(('__i' + nm[2:]) if inplace else nm)
            if m is None and inplace:
                m, _ = a.cls.lookup(nm)
            if m is not None:
                return interp.call(m, [a, b], {})
    if isinstance(b, Obj):
        nm = _DUNDER.get(op)
        if nm:
            m, _ = b.cls.lookup('__r' + nm[2:])
            if m is not None:
                return interp.call(m, [b, a], {})
    if a is None or b is None:
        interp.throw(TypeError, 'unsupported operand type(s) for %s: %s and '
                     '%s' % (op.__name__, _tn(a), _tn(b)))
    raise Unsupported('binop %s on %r, %r' % (op.__name__, a, b))


def _tn(v):
    if v is None:
        return "'NoneType'"
    if isinstance(v, (SInt,)):
        return "'int'"
    if isinstance(v, SReal):
        return "'float'"
    if isinstance(v, Obj):
        return "'%s'" % v.cls.name
    return "'%s'" % type(v).__name__


def _plain(v):
    """Host value that the host operators treat like Python would."""
    if isinstance(v, (int, float, str, bytes, type(None))):
        return True
    if isinstance(v, (tuple, list)):
        return all(_plain(x) for x in v)
    return False


_HOST_BIN = {
    ast.Add: lambda a, b: a + b, ast.Sub: lambda a, b: a - b,
    ast.Mult: lambda a, b: a * b, ast.Div: lambda a, b: a / b,
    ast.FloorDiv: lambda a, b: a // b, ast.Mod: lambda a, b: a % b,
    ast.Pow: lambda a, b: a ** b, ast.LShift: lambda a, b: a << b,
    ast.RShift: lambda a, b: a >> b, ast.BitAnd: lambda a, b: a & b,
    ast.BitOr: lambda a, b: a | b, ast.BitXor: lambda a, b: a ^ b,
}

_DUNDER = {ast.Add: '__add__', ast.Sub: '__sub__', ast.Mult: '__mul__',
           ast.Div: '__truediv__', ast.FloorDiv: '__floordiv__',
           ast.Mod: '__mod__', ast.BitAnd: '__and__', ast.BitOr: '__or__',
           ast.BitXor: '__xor__'}


BVW = 256


def bv_of(v):
    """(bitvec, bits) for a bit-vector backed SInt or a small non-negative
    host int, else None."""
    if isinstance(v, SInt) and v.bv is not None:
        return v.bv, v.bits
    if isinstance(v, int) and not isinstance(v, bool) and v >= 0 \
            and v.bit_length() <= 250:
        return z3.BitVecVal(v, BVW), max(1, v.bit_length())
    return None


def mk_bv(bv, bits):
    bv = z3.simplify(bv)
    if z3.is_bv_value(bv):
        return bv.as_long()
    return SInt(None, bv, bits)


def bv_binop(interp, op, a, b):
    """Integer operators in the bit-vector theory when both operands are
    bit-vector backed and the tracked bound shows no wrap-around."""
    if not ((isinstance(a, SInt) and a.bv is not None)
            or (isinstance(b, SInt) and b.bv is not None)):
        return None
    x = bv_of(a)
    y = bv_of(b)
    if x is None or y is None:
        return None
    (xa, na), (yb, nb) = x, y
    if op is ast.Add:
        n = max(na, nb) + 1
        return mk_bv(xa + yb, n) if n <= 255 else None
    if op is ast.Mult:
        n = na + nb
        return mk_bv(xa * yb, n) if n <= 255 else None
    if op is ast.BitAnd:
        return mk_bv(xa & yb, min(na, nb))
    if op is ast.BitOr:
        return mk_bv(xa | yb, max(na, nb))
    if op is ast.BitXor:
        return mk_bv(xa ^ yb, max(na, nb))
    if op in (ast.LShift, ast.RShift) and isinstance(b, int):
        if op is ast.LShift:
            n = na + b
            return mk_bv(xa << b, n) if n <= 255 else None
        return mk_bv(z3.LShR(xa, b), max(1, na - b))
    if op in (ast.FloorDiv, ast.Mod) and isinstance(b, int) and b > 0 \
            and b & (b - 1) == 0:
        k = b.bit_length() - 1
        if op is ast.FloorDiv:
            return mk_bv(z3.LShR(xa, k), max(1, na - k))
        return mk_bv(xa & z3.BitVecVal(b - 1, BVW), min(na, max(1, k)))
    if op is ast.Sub:
        # only when it cannot go negative
        if interp.path.implied(z3.UGE(xa, yb)):
            return mk_bv(xa - yb, na)
        return None
    return None


def bv_compare(interp, op, a, b):
    if not ((isinstance(a, SInt) and a.bv is not None)
            or (isinstance(b, SInt) and b.bv is not None)):
        return None
    x = bv_of(a)
    y = bv_of(b)
    if x is None or y is None:
        return None
    xa, yb = x[0], y[0]
    r = {ast.Eq: lambda: xa == yb, ast.NotEq: lambda: xa != yb,
         ast.Lt: lambda: z3.ULT(xa, yb), ast.LtE: lambda: z3.ULE(xa, yb),
         ast.Gt: lambda: z3.UGT(xa, yb),
         ast.GtE: lambda: z3.UGE(xa, yb)}.get(op)
    return None if r is None else mk_bool(r())


def num_binop(interp, op, a, b):
    r = bv_binop(interp, op, a, b)
    if r is not None:
        return r
    p = interp.path
    real = is_real(a) or is_real(b) or op is ast.Div
    if op in (ast.BitAnd, ast.BitOr, ast.BitXor):
        if real:
            interp.throw(TypeError, 'unsupported operand type(s) for bit op')
        if isinstance(a, (bool, SBool)) and isinstance(b, (bool, SBool)):
            x, y = zbool(a), zbool(b)
            return mk_bool({ast.BitAnd: z3.And(x, y), ast.BitOr: z3.Or(x, y),
                            ast.BitXor: z3.Xor(x, y)}[op])
        return bitop(interp, op, a, b)
    if op in (ast.LShift, ast.RShift):
        if real:
            interp.throw(TypeError, 'unsupported operand type(s) for shift')
        if is_symbolic(b):
            raise Unsupported('shift by symbolic amount')
        if b < 0:
            interp.throw(ValueError, 'negative shift count')
        if op is ast.LShift:
            return mk_int(zint(a) * (1 << b))
        return mk_int(py_floor_div(zint(a), z3.IntVal(1 << b)))
    if op is ast.Pow:
        if is_symbolic(b):
            raise Unsupported('symbolic exponent')
        if isinstance(b, int) and b >= 0:
            base = zreal(a) if real else zint(a)
            r = z3.RealVal(1) if real else z3.IntVal(1)
            for _ in range(b):
                r = r * base
            return mk_real(r) if real else mk_int(r)
        raise Unsupported('power with exponent %r' % (b,))
    if real:
        x, y = zreal(a), zreal(b)
        if op is ast.Add:
            return mk_real(x + y)
        if op is ast.Sub:
            return mk_real(x - y)
        if op is ast.Mult:
            return mk_real(x * y)
        if op is ast.Div:
            if is_symbolic(b):
                if interp.truth(mk_bool(y == 0)):
                    interp.throw(ZeroDivisionError, 'division by zero')
            elif b == 0:
                interp.throw(ZeroDivisionError, 'division by zero')
            return mk_real(x / y)
        raise Unsupported('float operator %s' % op.__name__)
    x, y = zint(a), zint(b)
    if op is ast.Add:
        return mk_int(x + y)
    if op is ast.Sub:
        return mk_int(x - y)
    if op is ast.Mult:
        return mk_int(x * y)
    if op in (ast.FloorDiv, ast.Mod):
        if is_symbolic(b):
            if interp.truth(mk_bool(y == 0)):
                interp.throw(ZeroDivisionError,
                             'integer division or modulo by zero')
        elif b == 0:
            interp.throw(ZeroDivisionError,
                         'integer division or modulo by zero')
        y = z3.simplify(y)
        if op is ast.FloorDiv:
            return mk_int(py_floor_div(x, y))
        return mk_int(py_mod(x, y))
    raise Unsupported('int operator %s' % op.__name__)


def bytes_repeat(interp, a, n):
    if is_symbolic(n):
        raise Unsupported('bytes * symbolic')
    if isinstance(a, bytes):
        return a * n
    r = b''
    for _ in range(n):
        r = bytes_concat(interp, r, a)
    return r


def unary(interp, op, v):
    if op is ast.USub:
        if isinstance(v, (int, float)):
            return -v
        if isinstance(v, SInt):
            return mk_int(-v.e)
        if isinstance(v, SReal):
            return mk_real(-v.e)
        if isinstance(v, SBool):
            return mk_int(-zint(v))
    if op is ast.UAdd:
        if isinstance(v, (int, float, SInt, SReal)):
            return v
    if op is ast.Invert:
        if isinstance(v, int):
            return ~v
        if isinstance(v, (SInt, SBool)):
            return mk_int(-zint(v) - 1)
    if isinstance(v, Obj):
        nm = {ast.USub: '__neg__', ast.UAdd: '__pos__',
              ast.Invert: '__invert__'}[op]
        m, _ = v.cls.lookup(nm)
        if m is not None:
            return interp.call(m, [v], {})
    if v is None or isinstance(v, (str, bytes, SBytes)):
        interp.throw(TypeError, 'bad operand type for unary %s'
                     % op.__name__)
    raise Unsupported('unary %s on %r' % (op.__name__, v))


# --------------------------------------------------------------------------
# comparison


def py_eq(interp, a, b):
    """a == b -> host bool or SBool."""
    if a is b and not isinstance(a, float):
        return True
    if a is None or b is None:
        return False
    if is_num(a) and is_num(b):
        if not is_symbolic(a) and not is_symbolic(b):
            return a == b
        if is_real(a) or is_real(b):
            return mk_bool(zreal(a) == zreal(b))
        r = bv_compare(interp, ast.Eq, a, b)
        if r is not None:
            return r
        return mk_bool(zint(a) == zint(b))
    if isinstance(a, (SBytes, bytes, bytearray)) and \
            isinstance(b, (SBytes, bytes, bytearray)):
        return bytes_eq(interp, a, b)
    if isinstance(a, (SStr, OpaqueStr)) or isinstance(b, (SStr, OpaqueStr)):
        from . import strings
        return strings.str_eq(interp, a, b)
    if isinstance(a, (tuple, list)) and type(a) is type(b):
        if len(a) != len(b):
            return False
        r = True
        for x, y in zip(a, b):
            r = bool_and(r, py_eq(interp, x, y))
            if r is False:
                return False
        return r
    if isinstance(a, dict) and isinstance(b, dict):
        if set(a) != set(b):
            return False
        r = True
        for k in a:
            r = bool_and(r, py_eq(interp, a[k], b[k]))
            if r is False:
                return False
        return r
    if isinstance(a, PySet) and isinstance(b, PySet):
        return set(a.d) == set(b.d)
    if isinstance(a, Obj):
        m, _ = a.cls.lookup('__eq__')
        if m is not None:
            return interp.call(m, [a, b], {})
        return a is b
    if isinstance(b, Obj):
        m, _ = b.cls.lookup('__eq__')
        if m is not None:
            return interp.call(m, [b, a], {})
        return False
    if is_symbolic(a) or is_symbolic(b):
        # different kinds (e.g. int vs bytes) are never equal
        return False
    if isinstance(a, Opaque) or isinstance(b, Opaque):
        raise Unsupported('== on opaque value')
    try:
        return bool(a == b)
    except Exception:
        return False


def order(interp, op, a, b):
    if is_num(a) and is_num(b):
        if not is_symbolic(a) and not is_symbolic(b):
            return {ast.Lt: a < b, ast.LtE: a <= b, ast.Gt: a > b,
                    ast.GtE: a >= b}[op]
        if is_real(a) or is_real(b):
            x, y = zreal(a), zreal(b)
        else:
            r = bv_compare(interp, op, a, b)
            if r is not None:
                return r
            x, y = zint(a), zint(b)
        return mk_bool({ast.Lt: x < y, ast.LtE: x <= y, ast.Gt: x > y,
                        ast.GtE: x >= y}[op])
    if _plain(a) and _plain(b):
        return interp.host_call(
            {ast.Lt: lambda: a < b, ast.LtE: lambda: a <= b,
             ast.Gt: lambda: a > b, ast.GtE: lambda: a >= b}[op])
    if isinstance(a, (tuple, list)) and type(a) is type(b):
        # lexicographic with symbolic leaves
        for x, y in zip(a, b):
            if interp.truth(bool_not(py_eq(interp, x, y))):
                return order(interp, op, x, y)
        return {ast.Lt: len(a) < len(b), ast.LtE: len(a) <= len(b),
                ast.Gt: len(a) > len(b), ast.GtE: len(a) >= len(b)}[op]
    if isinstance(a, (SStr, OpaqueStr)) or isinstance(b, (SStr, OpaqueStr)):
        from . import strings
        return strings.str_order(interp, op, a, b)
    if isinstance(a, Obj):
        nm = {ast.Lt: '__lt__', ast.LtE: '__le__', ast.Gt: '__gt__',
              ast.GtE: '__ge__'}[op]
        m, _ = a.cls.lookup(nm)
        if m is not None:
            return interp.call(m, [a, b], {})
    if a is None or b is None or (is_num(a) != is_num(b)):
        interp.throw(TypeError, "'%s' not supported between instances of %s "
                     "and %s" % ({ast.Lt: '<', ast.LtE: '<=', ast.Gt: '>',
                                  ast.GtE: '>='}[op], _tn(a), _tn(b)))
    raise Unsupported('ordering %r vs %r' % (a, b))


def contains(interp, container, x):
    """x in container -> host bool or SBool (forks for sequences)."""
    if isinstance(container, (tuple, list, PySet)):
        if isinstance(container, PySet) and not is_symbolic(x):
            return x in container
        if isinstance(x, (int, SInt, SBool)) and all(
                isinstance(y, (int, SInt, SBool)) for y in container):
            # integer membership: no side effects, no need to fork
            r = False
            for y in container:
                r = bool_or(r, py_eq(interp, x, y))
            return r
        for y in container:
            if interp.truth(py_eq(interp, x, y)):
                return True
        return False
    if isinstance(container, dict):
        return dict_find(interp, container, x) is not _MISSING
    if isinstance(container, (str, SStr, OpaqueStr)) or isinstance(
            x, (SStr, OpaqueStr)):
        from . import strings
        return strings.str_contains(interp, container, x)
    if isinstance(container, (bytes, SBytes)):
        if isinstance(container, bytes) and isinstance(x, (bytes, int)):
            return x in container
        raise Unsupported('in on symbolic bytes')
    if isinstance(container, SymRange):
        return mk_bool(z3.And(zint(x) >= zint(container.lo),
                              zint(x) < zint(container.hi)))
    if isinstance(container, range) and isinstance(x, SInt):
        if container.step == 1:
            return mk_bool(z3.And(x.e >= container.start,
                                  x.e < container.stop))
    if isinstance(container, range):
        return x in container
    if isinstance(container, Obj):
        m, _ = container.cls.lookup('__contains__')
        if m is not None:
            return truthy(interp, interp.call(m, [container, x], {}))
    if isinstance(container, LazyGen):
        return contains(interp, container.items(), x)
    if container is None:
        interp.throw(TypeError, "argument of type 'NoneType' is not "
                     "iterable")
    raise Unsupported('in on %r' % (container,))


_IMMUT = (int, float, str, bytes, tuple, SInt, SReal, SStr, SBytes, SBool)


def identity(interp, a, b):
    """a is b.  For equal immutable values that are not known to be the same
    object the answer is implementation defined (interning, caching): it is
    modelled as a non-deterministic boolean, so code relying on it is checked
    for both outcomes."""
    if a is b:
        return True
    if a is None or b is None:
        return False
    if isinstance(a, bool) or isinstance(b, bool):
        if isinstance(a, bool) and isinstance(b, bool):
            return a is b
        if isinstance(a, SBool) or isinstance(b, SBool):
            if isinstance(a, (bool, SBool)) and isinstance(b, (bool, SBool)):
                return py_eq(interp, a, b)
        return False
    if isinstance(a, (OpaqueStr,)) or isinstance(b, (OpaqueStr,)):
        raise Unsupported('identity of untracked strings')
    if isinstance(a, _IMMUT) and isinstance(b, _IMMUT):
        from .models import host_type_of
        if host_type_of(a) is not host_type_of(b):
            return False
        eq = py_eq(interp, a, b)
        if eq is False:
            return False
        p = interp.path
        nd = mk_bool(z3.Bool('same_object!%d' % next(p.fresh)))
        return bool_and(eq if isinstance(eq, (bool, SBool))
                        else truthy(interp, eq), nd)
    if is_symbolic(a) or is_symbolic(b):
        return False
    return a is b


def compare(interp, op, a, b):
    if op is ast.Eq:
        return py_eq(interp, a, b)
    if op is ast.NotEq:
        for x, y in ((a, b), (b, a)):
            if isinstance(x, Obj):
                m, _ = x.cls.lookup('__ne__')
                if m is not None:
                    return interp.call(m, [x, y], {})
        r = py_eq(interp, a, b)
        return bool_not(r if isinstance(r, (bool, SBool))
                        else truthy(interp, r))
    if op in (ast.Lt, ast.LtE, ast.Gt, ast.GtE):
        return order(interp, op, a, b)
    if op is ast.Is or op is ast.IsNot:
        r = identity(interp, a, b)
        if op is ast.Is:
            return r
        return bool_not(r)
    if op is ast.In:
        return contains(interp, b, a)
    if op is ast.NotIn:
        return bool_not(contains(interp, b, a))
    raise Unsupported('comparison %s' % op.__name__)


# --------------------------------------------------------------------------
# subscripts


def getitem(interp, o, k):
    if isinstance(o, (SBytes, bytes, bytearray)):
        if isinstance(k, slice):
            return bytes_slice(interp, o, k)
        if isinstance(o, (bytes, bytearray)) and isinstance(k, int):
            return interp.host_call(lambda: o[k])
        b = as_sbytes(o)
        if not isinstance(k, (int, SInt, SBool)):
            interp.throw(TypeError, 'byte indices must be integers')
        ke = zint(k)
        n = b.zlen()
        if not interp.truth(mk_bool(z3.And(ke >= -n, ke < n))):
            interp.throw(IndexError, 'index out of range')
        idx = z3.simplify(z3.If(ke < 0, n + ke, ke))
        return mk_int(b.at(idx))
    if isinstance(o, dict):
        x = dict_find(interp, o, k)
        if x is _MISSING:
            interp.throw(KeyError, k)
        return o[x]
    if isinstance(o, (list, tuple, str, range)):
        if isinstance(k, slice):
            if any(is_symbolic(x) for x in (k.start, k.stop, k.step)):
                if isinstance(o, str):
                    from . import strings
                    return strings.str_getitem(interp, o, k)
                raise Unsupported('symbolic slice of %s' % type(o).__name__)
            return interp.host_call(lambda: o[k])
        if isinstance(k, SInt):
            # fork over the possible positions
            n = len(o)
            for i in range(-n, n):
                if interp.truth(mk_bool(k.e == i)):
                    return o[i]
            interp.throw(IndexError, 'index out of range')
        if isinstance(k, (SBool,)) or k is None or isinstance(
                k, (str, float)):
            interp.throw(TypeError, 'indices must be integers or slices')
        return interp.host_call(lambda: o[k])
    if isinstance(o, SymTuple):
        if isinstance(k, int) and k < 0 and -k <= len(o.items):
            return o.items[k]
        raise Unsupported('index %r into symbolic tuple' % (k,))
    if isinstance(o, (SStr, OpaqueStr)):
        from . import strings
        return strings.str_getitem(interp, o, k)
    if isinstance(o, Obj):
        m, _ = o.cls.lookup('__getitem__')
        if m is not None:
            return interp.call(m, [o, k], {})
    if o is None or isinstance(o, (int, SInt)):
        interp.throw(TypeError, "%s object is not subscriptable" % _tn(o))
    raise Unsupported('subscript of %r' % (o,))


_MISSING = object()


def _keyable(k):
    return isinstance(k, (str, SStr, int, SInt, SBool, bytes, type(None),
                          tuple, float))


def dict_find(interp, o, k):
    """The key object of dict o that equals k, or _MISSING.

    Symbolic keys (z3 strings / integers) are stored by identity in the host
    dict.  Invariant: on every path the keys of a dict are pairwise distinct
    values - a key is only added after this function found it different from
    every key present (forking on each undecided comparison), so a lookup
    that finds one equal key has found the only one."""
    symk = is_symbolic(k)
    if not symk:
        try:
            if k in o:
                return k
        except TypeError:
            interp.throw(TypeError, 'unhashable type')
        if not any(is_symbolic(x) for x in o):
            return _MISSING
    if symk and not _keyable(k):
        raise Unsupported('dict key %r' % (k,))
    if len(o) > 64:
        raise Unsupported('symbolic key against a large dict')
    for x in list(o):
        if x is k:
            return x
        if symk or is_symbolic(x):
            if interp.truth(py_eq(interp, k, x)):
                return x
    return _MISSING


def setitem(interp, o, k, v):
    if isinstance(o, dict):
        x = dict_find(interp, o, k)
        o[k if x is _MISSING else x] = v
        return
    if isinstance(o, list):
        if is_symbolic(k):
            raise Unsupported('list store with symbolic index')
        interp.host_call(o.__setitem__, k, v)
        return
    if isinstance(o, Obj):
        m, _ = o.cls.lookup('__setitem__')
        if m is not None:
            interp.call(m, [o, k, v], {})
            return
    raise Unsupported('item assignment on %r' % (o,))


def delitem(interp, o, k):
    if isinstance(o, dict):
        if is_symbolic(k):
            raise Unsupported('dict delete with symbolic key')
        if k not in o:
            interp.throw(KeyError, k)
        del o[k]
        return
    if isinstance(o, list):
        interp.host_call(o.__delitem__, k)
        return
    raise Unsupported('del item on %r' % (o,))


# --------------------------------------------------------------------------
# iteration


def iterate(interp, v, lazy=False):
    from .interp import GeneratorVal
    if isinstance(v, (list, tuple)):
        return v if lazy and isinstance(v, tuple) else list(v)
    if isinstance(v, dict):
        return list(v)
    if isinstance(v, PySet):
        return list(v)
    if isinstance(v, (str, range)):
        return list(v)
    if isinstance(v, (bytes, bytearray)):
        return list(v)
    if isinstance(v, LazyGen):
        return v.lazy_items() if lazy else v.items()
    if isinstance(v, HostIter):
        return v.rest()
    if isinstance(v, SBytes):
        if isinstance(v.length, int):
            return [mk_int(v.at(i)) for i in range(v.length)]
        raise Unsupported('iteration over bytes of symbolic length')
    if isinstance(v, SymRange):
        raise Unsupported('iteration over a range of symbolic length '
                          'without invariant')
    if isinstance(v, GeneratorVal):
        if lazy:
            from . import gen
            return gen.lazy_items(interp, v)
        return generator_items(interp, v)
    if isinstance(v, Obj):
        m, _ = v.cls.lookup('__iter__')
        if m is not None:
            it = interp.call(m, [v], {})
            if it is v:
                return obj_next_items(interp, v)
            return iterate(interp, it, lazy)
        if v.cls.lookup('__getitem__')[0] is None:
            interp.throw(TypeError, "'%s' object is not iterable"
                         % v.cls.name)
    if v is None or isinstance(v, (int, SInt, float, SReal, bool, SBool)):
        interp.throw(TypeError, "%s object is not iterable" % _tn(v))
    raise Unsupported('iteration over %r' % (v,))


def sentinel_items(interp, si):
    """iter(callable, sentinel) consumed eagerly (concrete trip count)."""
    out = []
    while True:
        v = interp.call(si.fn, [], {})
        if interp.truth(py_eq(interp, v, si.sentinel)):
            return out
        out.append(v)
        if len(out) > 10000:
            raise Unsupported('iter(callable, sentinel) does not end; an '
                              'invariant is needed')


def obj_next_items(interp, o):
    nx = interp.getattr(o, '__next__')
    out = []
    while True:
        try:
            out.append(interp.call(nx, [], {}))
        except PyRaise as e:
            if any(c.host is StopIteration for c in e.exc.cls.mro):
                return out
            raise
        if len(out) > 100000:
            raise Unsupported('unbounded iterator')


class HostIter:
    """iter(x) over a concrete-shape container."""

    def __init__(self, items):
        self.items = list(items)
        self.pos = 0

    def rest(self):
        r = self.items[self.pos:]
        self.pos = len(self.items)
        return r


def generator_items(interp, g):
    """Run a generator function eagerly, collecting yielded values."""
    from . import gen
    return gen.run_generator(interp, g)


# --------------------------------------------------------------------------
# attributes of non-Obj values, type calls, host methods (models.py)


def getattr_value(interp, o, name):
    from . import models
    return models.getattr_value(interp, o, name)


def call_type(interp, t, args, kwargs):
    from . import models
    return models.call_type(interp, t, args, kwargs)


def call_host_method(interp, hm, args, kwargs):
    from . import models
    return models.call_host_method(interp, hm, args, kwargs)


def obj_default_attr(interp, o, name):
    from . import models
    return models.obj_default_attr(interp, o, name)


def super_default_attr(interp, o, name):
    from . import models
    return models.super_default_attr(interp, o, name)


def to_host_str(interp, v):
    from . import models
    return models.to_host_str(interp, v)

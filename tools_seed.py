#!/usr/bin/env python3
"""Verify a candidate seeded mutant and file it under /verif/seeded/<name>/.

usage: tools_seed.py <prop> <src_dir> <name>     (src_dir has patch.diff, demo.py, notes.md)

Steps (all in a scratch worktree of /repo under /tmp, removed afterwards):
  1. demo passes on the unchanged tree
  2. patch applies; baseline tests: same 472 passing names
  3. demo fails with the patch
Then copies patch.diff, demo.py and writes meta.json.  Running the checks
against the mutant is done separately (tools_seedrun.py)."""
import json
import os
import shutil
import subprocess
import sys

BASE = json.load(open('/root/.vp/BASELINE.json'))['stable_pass']


def sh(cmd, cwd=None, timeout=1800):
    return subprocess.run(cmd, shell=True, cwd=cwd, capture_output=True,
                          text=True, timeout=timeout)


def main():
    prop, src, name = sys.argv[1:4]
    wt = '/tmp/seedwt_%s' % name
    sh('git -C /repo worktree remove --force %s' % wt)
    r = sh('git -C /repo worktree add -q --detach %s HEAD' % wt)
    assert r.returncode == 0, r.stderr
    out = {'property': prop, 'name': name}
    try:
        demo = os.path.join(src, 'demo.py')
        r0 = sh('/venv/bin/python %s' % demo, cwd=wt)
        out['demo_clean_exit'] = r0.returncode
        ra = sh('git apply %s' % os.path.join(src, 'patch.diff'), cwd=wt)
        out['patch_applies'] = ra.returncode == 0
        rt = sh('/venv/bin/python -m pytest -q -p no:cacheprovider '
                '--timeout=900 --continue-on-collection-errors '
                '--junitxml=/tmp/seed_%s.xml' % name, cwd=wt)
        import xml.etree.ElementTree as ET
        passed = set()
        for tc in ET.parse('/tmp/seed_%s.xml' % name).getroot().iter(
                'testcase'):
            if not list(tc):
                passed.add('%s::%s' % (tc.get('classname'), tc.get('name')))
        os.unlink('/tmp/seed_%s.xml' % name)
        missing = [t for t in BASE if t not in passed]
        out['baseline_missing'] = missing
        out['tests_tail'] = rt.stdout.strip().splitlines()[-1:]
        r1 = sh('/venv/bin/python %s' % demo, cwd=wt)
        out['demo_mutant_exit'] = r1.returncode
        out['demo_mutant_output'] = (r1.stdout + r1.stderr)[-600:]
        ok = (out['demo_clean_exit'] == 0 and out['patch_applies']
              and not missing and out['demo_mutant_exit'] != 0)
        out['verified'] = ok
    finally:
        sh('git -C /repo worktree remove --force %s' % wt)
    print(json.dumps(out, indent=1)[:1500])
    if out.get('verified'):
        dst = os.path.join('/verif/seeded', name)
        os.makedirs(dst, exist_ok=True)
        shutil.copy(os.path.join(src, 'patch.diff'), dst)
        shutil.copy(os.path.join(src, 'demo.py'), dst)
        notes = ''
        if os.path.exists(os.path.join(src, 'notes.md')):
            notes = open(os.path.join(src, 'notes.md')).read()
        meta = {'property': prop, 'breaks': prop,
                'needs_to_manifest': notes,
                'verified_by': 'tools_seed.py: demo exit 0 on clean tree; '
                'patch applies; all 472 baseline tests still pass; demo '
                'exit %d with the patch' % out['demo_mutant_exit'],
                'demo_output_with_patch': out['demo_mutant_output'],
                'detected_by': None}
        json.dump(meta, open(os.path.join(dst, 'meta.json'), 'w'), indent=1)
    return 0 if out.get('verified') else 1


if __name__ == '__main__':
    sys.exit(main())
